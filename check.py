#!/usr/bin/env python3
"""Driver for the frost runtime-monitoring checks (see DESIGN.md).

    ./check.py <Cxx> <quick|thorough>          run one property
    ./check.py <Cxx> --replay <file>           re-execute exactly the recorded case
    ./check.py --build                         build the harness only (setup)

exit 0  property held on everything observed (KNOWN-FINDING lines possible)
exit 1  a refutation event was observed: `VIOLATION property=<id> replay=<path>`
exit 2  inconclusive (build / oracle self-test / watchdog / coverage minimum) — never a verdict
"""
import glob
import hashlib
import json
import os
import resource
import shutil
import subprocess
import sys
import time

ROOT = os.path.dirname(os.path.abspath(__file__))
sys.path.insert(0, ROOT)
HARNESS = os.path.join(ROOT, "harness")
TARGET = os.path.join(ROOT, "target")
# The registered checks always build against /repo. For background sweeps and for trying seeded changes in a scratch
# worktree, FV_REPO=<dir> (or VP_RUN_REPO, set by `vp run --with-repo`) points a *copy* of the harness at another tree.
ALT_REPO = os.environ.get("FV_REPO") or os.environ.get("VP_RUN_REPO")
if ALT_REPO and os.path.realpath(ALT_REPO) != "/repo":
    _tag = hashlib.sha256(os.path.realpath(ALT_REPO).encode()).hexdigest()[:10]
    _alt = os.path.join(ROOT, "run", "alt-" + _tag)
    os.makedirs(_alt, exist_ok=True)
    subprocess.run(["rsync", "-a", "--delete", "--exclude", "target", HARNESS + "/", os.path.join(_alt, "harness") + "/"], check=True)
    _ct = os.path.join(_alt, "harness", "Cargo.toml")
    _s = open(_ct).read().replace('path = "/repo/', 'path = "' + os.path.realpath(ALT_REPO) + "/")
    open(_ct, "w").write(_s)
    shutil.copy(os.path.join(os.path.realpath(ALT_REPO), "Cargo.lock"), os.path.join(_alt, "harness", "Cargo.lock"))
    HARNESS = os.path.join(_alt, "harness")
    TARGET = os.path.join(_alt, "target")
    RUN_TAG = "alt-" + _tag
else:
    RUN_TAG = None
FV = os.path.join(TARGET, "verif", "fv")
RUN = os.path.join(ROOT, "run") if not RUN_TAG else os.path.join(ROOT, "run", RUN_TAG, "runs")
EVID = os.path.join(ROOT, "evidence") if not RUN_TAG else os.path.join(ROOT, "run", RUN_TAG, "evidence")
REPLAYS = os.path.join(ROOT, "replays")
KNOWN = os.path.join(ROOT, "known_findings.json")
SUITES = ["ed25519", "ristretto255", "ed448", "p256", "secp256k1", "secp256k1-tr"]
NCPU = os.cpu_count() or 4
PRELUDE = {"ed25519": "p256", "ristretto255": "ed448", "ed448": "ed25519", "p256": "ed25519", "secp256k1": "ed448", "secp256k1-tr": "ed25519"}

from props import PROPS  # noqa: E402  (per-property configuration)


def log(*a):
    print(*a, flush=True)


def inconclusive(prop, why):
    log(f"INCONCLUSIVE property={prop} {why}")
    sys.exit(2)


def cargo_env():
    env = dict(os.environ)
    env["CARGO_NET_OFFLINE"] = "true"
    env["CARGO_TARGET_DIR"] = TARGET
    env.pop("RUSTFLAGS", None)
    return env


def sync_lock():
    """The harness resolves against /repo's lock file so that it builds offline with exactly the
    crate versions the repository pins."""
    src = "/repo/Cargo.lock"
    dst = os.path.join(HARNESS, "Cargo.lock")
    if not os.path.exists(dst) and os.path.exists(src):
        shutil.copy(src, dst)


def build(profiles=("verif",), bins=("fv",), parallel=False):
    """profiles other than `verif` get a target directory of their own so that they can be built concurrently"""
    sync_lock()
    t0 = time.time()
    procs = []
    for prof in profiles:
        cmd = ["cargo", "build", "--offline", "--profile", prof]
        for b in bins:
            cmd += ["--bin", b]
        env = cargo_env()
        if prof != "verif":
            env["CARGO_TARGET_DIR"] = os.path.join(TARGET, "p-" + prof)
        p = subprocess.Popen(cmd, cwd=HARNESS, env=env, stdout=subprocess.PIPE, stderr=subprocess.STDOUT, text=True)
        procs.append(p)
        if not parallel:
            p.wait()
    ok = True
    for p in procs:
        out, _ = p.communicate()
        if p.returncode != 0:
            sys.stdout.write((out or "")[-6000:])
            ok = False
    return ok, time.time() - t0


def profile_bin(prof, name):
    if prof == "verif":
        return os.path.join(TARGET, "verif", name)
    return os.path.join(TARGET, "p-" + prof, "debug" if prof == "dev" else prof, name)


def limit_child():
    # attacker-controlled allocation sizes must kill the child, not the machine
    resource.setrlimit(resource.RLIMIT_AS, (8 << 30, 8 << 30))
    resource.setrlimit(resource.RLIMIT_CORE, (0, 0))


def shard_plan(cfg, tier):
    """suite -> number of shards; weights reflect measured per-suite cost."""
    w = cfg.get("weights", {"ed25519": 4, "ristretto255": 4, "ed448": 6, "p256": 4, "secp256k1": 4, "secp256k1-tr": 4})
    suites = cfg.get("suites", SUITES)
    return {s: max(1, w.get(s, 1)) for s in suites}


def mixed_profiles(cfg):
    """Shards alternate between two builds of the harness+library: `verif` (release + debug assertions + overflow checks)
    and plain `release` (what users ship). A side effect inside a debug assertion, or anything else that exists in one
    profile only, shows up in half of the shards. Not for checks that loop over profiles themselves (C15, C16, C20) and not
    for C14, which relies on the overflow checks to turn a wrap into an attributable panic."""
    return not cfg.get("profiles") and cfg.get("mixed_profiles", True)


def shard_profile(i):
    return "release" if (i // 2) % 2 == 1 else "verif"


def run_shards(prop, cfg, tier, seed, outdir, only=None, binpath=None, env=None):
    """Run all fv shards; returns (results, dead) where dead lists shards that died."""
    plan = shard_plan(cfg, tier)
    jobs = []
    forced_bin = binpath is not None
    mixed = mixed_profiles(cfg)
    binpath = binpath or cfg.get("bin", FV)
    os.makedirs(outdir, exist_ok=True)
    for s, n in plan.items():
        for i in range(n):
            if only and (only["suite"] != s or i != 0):
                continue
            prof = None
            if mixed and not forced_bin:
                prof = (only.get("profile") if only else None) or shard_profile(i)
            cmd = [profile_bin(prof, "fv") if prof else binpath, prop, "--suite", s, "--tier", tier, "--seed", str(seed), "--out", outdir]
            if only:
                cmd += ["--only-item", str(only["item"])]
                if only.get("prelude"):
                    cmd += ["--prelude", only["prelude"]]
            else:
                cmd += ["--shard", f"{i}/{n}"]
                if i % 2 == 1:
                    # odd shards: another ciphersuite (with other encoding sizes) is used first in the same process
                    cmd += ["--prelude", PRELUDE[s]]
            jobs.append((s, i, cmd, prof))
    watchdog = int(os.environ.get("FV_WATCHDOG") or cfg.get("watchdog", {"quick": 900, "thorough": 7200})[tier])
    running, results, dead = [], [], []
    queue = list(jobs)
    t0 = time.time()
    maxpar = cfg.get("parallel", NCPU)
    while queue or running:
        while queue and len(running) < maxpar:
            s, i, cmd, prof = queue.pop(0)
            lf = open(os.path.join(outdir, f"{prop}.{s}.{i}.stderr"), "w")
            penv = env
            if prof:
                penv = dict(env or os.environ, FV_PROFILE_NAME=prof)
            p = subprocess.Popen(cmd, stdout=lf, stderr=subprocess.STDOUT, preexec_fn=limit_child, env=penv)
            running.append((s, i, cmd, p, lf, time.time()))
        time.sleep(0.05)
        for r in list(running):
            s, i, cmd, p, lf, st = r
            rc = p.poll()
            if rc is None:
                if time.time() - st > watchdog:
                    p.kill()
                    p.wait()
                    lf.close()
                    running.remove(r)
                    dead.append({"suite": s, "shard": i, "why": "watchdog", "rc": None})
                continue
            lf.close()
            running.remove(r)
            resf = os.path.join(outdir, f"{prop}.{s}.{'0' if only else i}.json")
            if rc == 0 and os.path.exists(resf):
                results.append(json.load(open(resf)))
            else:
                wal = os.path.join(outdir, f"{prop}.{s}.{i}.wal")
                dead.append({"suite": s, "shard": i, "why": "died", "rc": rc,
                             "wal": open(wal).read() if os.path.exists(wal) else None,
                             "stderr": open(os.path.join(outdir, f"{prop}.{s}.{i}.stderr")).read()[-2000:]})
    return results, dead, time.time() - t0


def load_known():
    if not os.path.exists(KNOWN):
        return []
    return json.load(open(KNOWN)).get("findings", [])


def write_replay(v):
    os.makedirs(REPLAYS, exist_ok=True)
    h = hashlib.sha256(json.dumps(v, sort_keys=True).encode()).hexdigest()[:12]
    name = v["signature"].replace("/", "_")[:100]
    path = os.path.join(REPLAYS, f"{name}.{h}.json")
    with open(path, "w") as f:
        json.dump(v, f, indent=1, sort_keys=True)
    return path


def merge(results):
    counts, classes, viols, samples, notes, persig = {}, set(), [], [], {}, {}
    items_total, items_run = {}, 0
    for r in results:
        for k, v in r["counts"].items():
            counts[k] = counts.get(k, 0) + v
        classes.update(r["classes"])
        viols.extend(r["violations"])
        for k, v in r.get("viol_per_sig", {}).items():
            persig[k] = persig.get(k, 0) + v
        samples.extend(r["samples"])
        for k, v in r.get("notes", {}).items():
            notes.setdefault(r["suite"], {})[k] = v
        items_total[r["suite"]] = r["items_total"]
        items_run += r["items_run"]
    return {"counts": counts, "classes": classes, "viols": viols, "samples": samples, "notes": notes,
            "persig": persig, "items_total": items_total, "items_run": items_run}


def main():
    args = sys.argv[1:]
    if args and args[0] == "--build":
        ok, secs = build(profiles=("verif",), bins=("fv",))
        from props import extra_builds
        ok2 = extra_builds(build) if ok else False
        log(f"build {'ok' if ok and ok2 else 'FAILED'} in {secs:.1f}s")
        sys.exit(0 if ok and ok2 else 2)
    if not args or args[0] not in PROPS:
        log(__doc__)
        sys.exit(64)
    prop = args[0]
    cfg = PROPS[prop]
    replay = None
    tier = os.environ.get("VERIF_TIER", "quick")
    seed = int(os.environ.get("VERIF_SEED", "1") or 1)
    i = 1
    while i < len(args):
        if args[i] in ("quick", "thorough"):
            tier = args[i]
        elif args[i] == "--replay":
            replay = json.load(open(args[i + 1]))
            i += 1
        elif args[i] == "--seed":
            seed = int(args[i + 1])
            i += 1
        i += 1
    if tier not in ("quick", "thorough"):
        tier = "quick"
    t_start = time.time()
    outdir = os.path.join(RUN, f"{prop}.{tier}.{seed}" + (".replay" if replay else ""))
    shutil.rmtree(outdir, ignore_errors=True)
    os.makedirs(outdir, exist_ok=True)

    # 1. oracle self-test (pins the Python reference to RFC / BIP vectors) where the oracle is used
    if cfg.get("python"):
        from oracle import selftest
        ok, why = selftest.cached(ROOT)
        if not ok:
            inconclusive(prop, f"oracle self-test failed: {why}")

    # 2. build from the current /repo working tree
    if "build" in cfg:
        ok, bsecs = cfg["build"](build)
    elif mixed_profiles(cfg):
        ok, bsecs = build(profiles=("verif", "release"), bins=("fv",), parallel=True)
    else:
        ok, bsecs = build()
    if not ok:
        inconclusive(prop, "harness build failed against the current /repo tree")

    # 3. pre-generation by the oracle (inputs the reference must supply)
    if cfg.get("pregen") and not replay:
        cfg["pregen"](outdir, tier, seed)
    elif cfg.get("pregen") and replay:
        cfg["pregen"](outdir, replay.get("tier", tier), replay.get("seed", seed))

    # 4. run the shards (C20: once per build profile, each with its own probe binary)
    only = None
    if replay:
        tier, seed = replay.get("tier", tier), replay.get("seed", seed)
        only = {"suite": replay["suite"], "item": replay["item"], "prelude": replay.get("prelude"), "profile": replay.get("profile")}
    if cfg.get("profiles"):
        results, dead, secs = [], [], 0.0
        for prof in cfg["profiles"]:
            if replay and replay.get("detail", {}).get("profile") not in (None, prof):
                continue
            env = dict(os.environ)
            env["FV_PROFILE_NAME"] = prof
            r, d, s_ = run_shards(prop, cfg, tier, seed, os.path.join(outdir, prof), only=only, binpath=profile_bin(prof, cfg["probe"]), env=env)
            for x in r:
                x["classes"] = list(x["classes"])
            results += r
            dead += d
            secs += s_
    else:
        results, dead, secs = run_shards(prop, cfg, tier, seed, outdir, only=only)
    if cfg.get("second_phase") and not replay:
        r2, d2, s2 = cfg["second_phase"](prop, tier, seed, outdir, FV, limit_child, PRELUDE)
        results += r2
        dead += d2
        secs += s2
    m = merge(results)

    # 5. a dead shard: C14 attributes it to its last input, everything else is inconclusive
    hard_dead = []
    for d in dead:
        if cfg.get("dead_is_violation") and d["why"] == "died" and d.get("wal"):
            parts = d["wal"].split(" ", 3)
            m["viols"].append({"signature": f"{prop}/process-death/{d['suite']}/{parts[1] if len(parts) > 1 else '?'}",
                               "property": prop, "suite": d["suite"], "seed": seed, "tier": tier,
                               "item": int(parts[0]) if parts[0].isdigit() else 0, "desc": "shard died",
                               "detail": {"rc": d["rc"], "last_input": d["wal"][:4000], "stderr": d["stderr"]}})
        else:
            hard_dead.append(d)

    # 6. offline checkers over the event logs
    py_stats = {}
    if cfg.get("python"):
        ev_files = sorted(glob.glob(os.path.join(outdir, f"{prop}.*.events.jsonl")) + glob.glob(os.path.join(outdir, "*", f"{prop}.*.events.jsonl")))
        pv, py_stats = cfg["python"](ev_files, tier, seed, outdir)
        for v in pv:
            v.setdefault("property", prop)
            v.setdefault("seed", seed)
            v.setdefault("tier", tier)
            m["viols"].append(v)
        for k, v in py_stats.get("counts", {}).items():
            m["counts"][k] = m["counts"].get(k, 0) + v
        m["classes"].update(py_stats.get("classes", []))

    # 6b. supplementary monitors (never turn a run inconclusive; only a positive finding counts)
    if cfg.get("supplementary") and not replay:
        sv, sstats = cfg["supplementary"](tier, seed, outdir, HARNESS, TARGET)
        for v in sv:
            v.setdefault("property", prop)
            v.setdefault("seed", seed)
            v.setdefault("tier", tier)
            m["viols"].append(v)
        py_stats.setdefault("summary", {})["supplementary"] = sstats

    # 7. verdict
    known = load_known()
    known_sigs = {k["signature"]: k for k in known if k.get("status") == "known" and k.get("property") == prop}
    new_viols, known_hits = [], {}
    for v in m["viols"]:
        if v["signature"] in known_sigs:
            known_hits.setdefault(v["signature"], v)
        else:
            new_viols.append(v)
    evaluations = sum(m["counts"].get(k, 0) for k in cfg["eval_keys"])
    distinct = len(m["classes"])
    wall = time.time() - t_start
    ev = {
        "property_id": prop, "tier": tier, "seed": seed, "level": cfg["level"],
        "coverage": {
            "evaluations": evaluations,
            "distinct_nontrivial": distinct,
            "rule": cfg["rule"],
            "samples": m["samples"][:6] if m["samples"] else [],
            "exhaustive": bool(cfg.get("exhaustive", False)),
            "counts": m["counts"],
            "items_per_suite": m["items_total"],
            "items_executed": m["items_run"],
            "class_examples": sorted(m["classes"])[:: max(1, distinct // 25)][:25],
            "violations_by_signature": m["persig"],
            "notes": m["notes"],
            "oracle": py_stats.get("summary", {}),
            "build_s": round(bsecs, 1), "run_s": round(secs, 1),
            "dead_shards": [{k: d[k] for k in ("suite", "shard", "why", "rc")} for d in dead],
            "known_findings_seen": sorted(known_hits),
        },
        "assumptions": cfg["assumptions"],
        "wall_s": round(wall, 2),
        "violations": len(new_viols),
    }
    if cfg.get("evidence_extra"):
        ev["coverage"].update(cfg["evidence_extra"](m, py_stats))
    if not replay:
        os.makedirs(EVID, exist_ok=True)
        tmp = os.path.join(EVID, f"{prop}.json.tmp")
        with open(tmp, "w") as f:
            json.dump(ev, f, indent=1, sort_keys=True, default=str)
        os.replace(tmp, os.path.join(EVID, f"{prop}.json"))

    log(f"[{prop} {tier} seed={seed}] evaluations={evaluations} distinct_classes={distinct} "
        f"violations={len(new_viols)} known={len(known_hits)} build={bsecs:.0f}s run={secs:.0f}s wall={wall:.0f}s")
    for sig, v in sorted(known_hits.items()):
        log(f"KNOWN-FINDING: property={prop} {sig} — {known_sigs[sig].get('what', '')}")
    if new_viols:
        seen = set()
        for v in new_viols:
            if v["signature"] in seen:
                continue
            seen.add(v["signature"])
            path = write_replay(v)
            log(f"VIOLATION property={prop} replay={path}")
            log(f"  signature={v['signature']} item={v.get('item')} desc={v.get('desc')}")
            log("  detail=" + json.dumps(v.get("detail"), default=str)[:1500])
        sys.exit(1)
    if replay:
        log("replay: no violation reproduced")
        sys.exit(0)
    if hard_dead:
        inconclusive(prop, "shards did not finish: " + json.dumps(hard_dead)[:1500])
    why = cfg["minimum"](m, tier) if cfg.get("minimum") else None
    if why is None and (evaluations < 1 or distinct < 2):
        why = f"observed too little: evaluations={evaluations} distinct={distinct}"
    if why:
        inconclusive(prop, "observation minimum not met: " + why)
    sys.exit(0)


if __name__ == "__main__":
    main()
