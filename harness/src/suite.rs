//! The six ciphersuites seen through one trait, plus per-suite *independent* pieces
//! (challenge hash typed from the RFC / BIP, external verifiers).

use std::collections::BTreeMap;

use frost_core::keys::dkg::{round1 as d1, round2 as d2};
use frost_core::keys::repairable::{Delta, Sigma};
use frost_core::keys::{IdentifierList, KeyPackage, PublicKeyPackage, SecretShare, SigningShare};
use frost_core::round1::{SigningCommitments, SigningNonces};
use frost_core::round2::SignatureShare;
use frost_core::{Ciphersuite, Error, Field, Group, Identifier, Signature, SigningKey, SigningPackage};
use frost_rerandomized::RandomizedCiphersuite;
use sha2::{Digest, Sha256, Sha512};

use crate::alg::*;
use crate::rng::TraceRng;

pub type IdMap<C, T> = BTreeMap<Identifier<C>, T>;

macro_rules! api_impl {
    ($k:ident) => {
        fn api_generate_with_dealer(n: u16, t: u16, ids: IdentifierList<Self>, rng: &mut TraceRng) -> Result<(IdMap<Self, SecretShare<Self>>, PublicKeyPackage<Self>), Error<Self>> {
            $k::keys::generate_with_dealer(n, t, ids, rng)
        }
        fn api_split(key: &SigningKey<Self>, n: u16, t: u16, ids: IdentifierList<Self>, rng: &mut TraceRng) -> Result<(IdMap<Self, SecretShare<Self>>, PublicKeyPackage<Self>), Error<Self>> {
            $k::keys::split(key, n, t, ids, rng)
        }
        fn api_reconstruct(kps: &[KeyPackage<Self>]) -> Result<SigningKey<Self>, Error<Self>> {
            $k::keys::reconstruct(kps)
        }
        fn api_dkg_part1(id: Identifier<Self>, n: u16, t: u16, rng: &mut TraceRng) -> Result<(d1::SecretPackage<Self>, d1::Package<Self>), Error<Self>> {
            $k::keys::dkg::part1(id, n, t, rng)
        }
        fn api_dkg_part2(sec: d1::SecretPackage<Self>, r1: &IdMap<Self, d1::Package<Self>>) -> Result<(d2::SecretPackage<Self>, IdMap<Self, d2::Package<Self>>), Error<Self>> {
            $k::keys::dkg::part2(sec, r1)
        }
        fn api_dkg_part3(sec: &d2::SecretPackage<Self>, r1: &IdMap<Self, d1::Package<Self>>, r2: &IdMap<Self, d2::Package<Self>>) -> Result<(KeyPackage<Self>, PublicKeyPackage<Self>), Error<Self>> {
            $k::keys::dkg::part3(sec, r1, r2)
        }
        fn api_commit(share: &SigningShare<Self>, rng: &mut TraceRng) -> (SigningNonces<Self>, SigningCommitments<Self>) {
            $k::round1::commit(share, rng)
        }
        fn api_sign(pkg: &SigningPackage<Self>, nonces: &SigningNonces<Self>, kp: &KeyPackage<Self>) -> Result<SignatureShare<Self>, Error<Self>> {
            $k::round2::sign(pkg, nonces, kp)
        }
        fn api_aggregate(pkg: &SigningPackage<Self>, shares: &IdMap<Self, SignatureShare<Self>>, pkp: &PublicKeyPackage<Self>) -> Result<Signature<Self>, Error<Self>> {
            $k::aggregate(pkg, shares, pkp)
        }
        fn api_compute_refreshing_shares(pkp: PublicKeyPackage<Self>, ids: &[Identifier<Self>], rng: &mut TraceRng) -> Result<(Vec<SecretShare<Self>>, PublicKeyPackage<Self>), Error<Self>> {
            $k::keys::refresh::compute_refreshing_shares(pkp, ids, rng)
        }
        fn api_refresh_share(share: SecretShare<Self>, cur: &KeyPackage<Self>) -> Result<KeyPackage<Self>, Error<Self>> {
            $k::keys::refresh::refresh_share(share, cur)
        }
        fn api_refresh_dkg_part1(id: Identifier<Self>, n: u16, t: u16, rng: &mut TraceRng) -> Result<(d1::SecretPackage<Self>, d1::Package<Self>), Error<Self>> {
            $k::keys::refresh::refresh_dkg_part1(id, n, t, rng)
        }
        fn api_refresh_dkg_part2(sec: d1::SecretPackage<Self>, r1: &IdMap<Self, d1::Package<Self>>) -> Result<(d2::SecretPackage<Self>, IdMap<Self, d2::Package<Self>>), Error<Self>> {
            $k::keys::refresh::refresh_dkg_part2(sec, r1)
        }
        fn api_refresh_dkg_shares(sec: &d2::SecretPackage<Self>, r1: &IdMap<Self, d1::Package<Self>>, r2: &IdMap<Self, d2::Package<Self>>, old_pkp: PublicKeyPackage<Self>, old_kp: KeyPackage<Self>) -> Result<(KeyPackage<Self>, PublicKeyPackage<Self>), Error<Self>> {
            $k::keys::refresh::refresh_dkg_shares(sec, r1, r2, old_pkp, old_kp)
        }
        fn api_repair_part1(helpers: &[Identifier<Self>], kp: &KeyPackage<Self>, rng: &mut TraceRng, participant: Identifier<Self>) -> Result<IdMap<Self, Delta<Self>>, Error<Self>> {
            $k::keys::repairable::repair_share_part1::<Self, _>(helpers, kp, rng, participant)
        }
        fn api_repair_part2(deltas: &[Delta<Self>]) -> Sigma<Self> {
            $k::keys::repairable::repair_share_part2(deltas)
        }
        fn api_repair_part3(sigmas: &[Sigma<Self>], id: Identifier<Self>, pkp: &PublicKeyPackage<Self>) -> Result<KeyPackage<Self>, Error<Self>> {
            $k::keys::repairable::repair_share_part3(sigmas, id, pkp)
        }
    };
}

pub trait Suite: RandomizedCiphersuite {
    const NAME: &'static str;
    /// scalar encoding is little-endian (dalek, ed448) or big-endian (p256, k256)
    const LE: bool;
    const SCALAR_LEN: usize;
    const ELEM_LEN: usize;
    const SIG_LEN: usize;
    const TAPROOT: bool = false;

    /// Independent H2: returns the challenge scalar for `R || PK || msg` given the *encoded*
    /// R and PK (as they appear in signature / key bytes). Written from the RFC / BIP text using
    /// sha2/sha3 directly and Horner reduction; does not call the suite crate's hash helpers.
    fn indep_challenge(r_enc: &[u8], pk_enc: &[u8], msg: &[u8]) -> Sc<Self>;

    /// Expected post-processing of DKG output, written independently of the suite crate:
    /// maps (sum of constant-term commitments, sum of received shares) to (group key, signing share).
    /// Identity for every suite except Taproot (BIP-341 key-path-only tweak after even-Y normalisation).
    fn indep_post_dkg(sum_key: El<Self>, share: Sc<Self>) -> (El<Self>, Sc<Self>) {
        (sum_key, share)
    }

    // ---- the ciphersuite crate's own public entry points (what users call). Workloads go through these, not
    // ---- straight to the frost-core generics, so that a defect in a crate-level wrapper is inside the observed system.
    fn api_generate_with_dealer(n: u16, t: u16, ids: IdentifierList<Self>, rng: &mut TraceRng) -> Result<(IdMap<Self, SecretShare<Self>>, PublicKeyPackage<Self>), Error<Self>>;
    fn api_split(key: &SigningKey<Self>, n: u16, t: u16, ids: IdentifierList<Self>, rng: &mut TraceRng) -> Result<(IdMap<Self, SecretShare<Self>>, PublicKeyPackage<Self>), Error<Self>>;
    fn api_reconstruct(kps: &[KeyPackage<Self>]) -> Result<SigningKey<Self>, Error<Self>>;
    fn api_dkg_part1(id: Identifier<Self>, n: u16, t: u16, rng: &mut TraceRng) -> Result<(d1::SecretPackage<Self>, d1::Package<Self>), Error<Self>>;
    fn api_dkg_part2(sec: d1::SecretPackage<Self>, r1: &IdMap<Self, d1::Package<Self>>) -> Result<(d2::SecretPackage<Self>, IdMap<Self, d2::Package<Self>>), Error<Self>>;
    fn api_dkg_part3(sec: &d2::SecretPackage<Self>, r1: &IdMap<Self, d1::Package<Self>>, r2: &IdMap<Self, d2::Package<Self>>) -> Result<(KeyPackage<Self>, PublicKeyPackage<Self>), Error<Self>>;
    fn api_commit(share: &SigningShare<Self>, rng: &mut TraceRng) -> (SigningNonces<Self>, SigningCommitments<Self>);
    fn api_sign(pkg: &SigningPackage<Self>, nonces: &SigningNonces<Self>, kp: &KeyPackage<Self>) -> Result<SignatureShare<Self>, Error<Self>>;
    fn api_aggregate(pkg: &SigningPackage<Self>, shares: &IdMap<Self, SignatureShare<Self>>, pkp: &PublicKeyPackage<Self>) -> Result<Signature<Self>, Error<Self>>;
    fn api_compute_refreshing_shares(pkp: PublicKeyPackage<Self>, ids: &[Identifier<Self>], rng: &mut TraceRng) -> Result<(Vec<SecretShare<Self>>, PublicKeyPackage<Self>), Error<Self>>;
    fn api_refresh_share(share: SecretShare<Self>, cur: &KeyPackage<Self>) -> Result<KeyPackage<Self>, Error<Self>>;
    fn api_refresh_dkg_part1(id: Identifier<Self>, n: u16, t: u16, rng: &mut TraceRng) -> Result<(d1::SecretPackage<Self>, d1::Package<Self>), Error<Self>>;
    fn api_refresh_dkg_part2(sec: d1::SecretPackage<Self>, r1: &IdMap<Self, d1::Package<Self>>) -> Result<(d2::SecretPackage<Self>, IdMap<Self, d2::Package<Self>>), Error<Self>>;
    fn api_refresh_dkg_shares(sec: &d2::SecretPackage<Self>, r1: &IdMap<Self, d1::Package<Self>>, r2: &IdMap<Self, d2::Package<Self>>, old_pkp: PublicKeyPackage<Self>, old_kp: KeyPackage<Self>) -> Result<(KeyPackage<Self>, PublicKeyPackage<Self>), Error<Self>>;
    fn api_repair_part1(helpers: &[Identifier<Self>], kp: &KeyPackage<Self>, rng: &mut TraceRng, participant: Identifier<Self>) -> Result<IdMap<Self, Delta<Self>>, Error<Self>>;
    fn api_repair_part2(deltas: &[Delta<Self>]) -> Sigma<Self>;
    fn api_repair_part3(sigmas: &[Sigma<Self>], id: Identifier<Self>, pkp: &PublicKeyPackage<Self>) -> Result<KeyPackage<Self>, Error<Self>>;

    /// Further aggregation entry points the ciphersuite crate offers beside `aggregate` (Taproot: `aggregate_with_tweak`
    /// with no / an empty / a 32-byte merkle root). Each must apply the same refusals as `aggregate`.
    fn api_aggregate_variants(_pkg: &SigningPackage<Self>, _shares: &IdMap<Self, SignatureShare<Self>>, _pkp: &PublicKeyPackage<Self>) -> Vec<(&'static str, Result<Signature<Self>, Error<Self>>)> {
        Vec::new()
    }
    /// Likewise for `round2::sign` (Taproot: `sign_with_tweak`).
    fn api_sign_variants(_pkg: &SigningPackage<Self>, _nonces: &SigningNonces<Self>, _kp: &KeyPackage<Self>) -> Vec<(&'static str, Result<SignatureShare<Self>, Error<Self>>)> {
        Vec::new()
    }

    /// what a derived `Debug` on a secret newtype would print for this scalar
    fn scalar_debug(s: &Sc<Self>) -> String;

    /// A second, fully external verifier where one exists in the registry.
    fn ext_verify(_vk: &[u8], _msg: &[u8], _sig: &[u8]) -> Option<bool> {
        None
    }
}

/// RFC 9380 expand_message_xmd with SHA-256, written from the RFC.
pub fn expand_message_xmd_sha256(msg: &[u8], dst: &[u8], len: usize) -> Vec<u8> {
    let b_in_bytes = 32usize;
    let s_in_bytes = 64usize;
    let ell = len.div_ceil(b_in_bytes);
    assert!(ell <= 255 && dst.len() <= 255);
    let mut dst_prime = dst.to_vec();
    dst_prime.push(dst.len() as u8);
    let z_pad = vec![0u8; s_in_bytes];
    let l_i_b = [(len >> 8) as u8, (len & 0xff) as u8];
    let mut h = Sha256::new();
    h.update(&z_pad);
    h.update(msg);
    h.update(l_i_b);
    h.update([0u8]);
    h.update(&dst_prime);
    let b0 = h.finalize();
    let mut h = Sha256::new();
    h.update(b0);
    h.update([1u8]);
    h.update(&dst_prime);
    let mut bi = h.finalize();
    let mut out = bi.to_vec();
    for i in 2..=ell {
        let mut x = [0u8; 32];
        for k in 0..32 {
            x[k] = b0[k] ^ bi[k];
        }
        let mut h = Sha256::new();
        h.update(x);
        h.update([i as u8]);
        h.update(&dst_prime);
        bi = h.finalize();
        out.extend_from_slice(&bi);
    }
    out.truncate(len);
    out
}

fn h2f_sha256<C: Suite>(ctx_string: &str, tag: &str, msg: &[u8]) -> Sc<C> {
    let mut dst = ctx_string.as_bytes().to_vec();
    dst.extend_from_slice(tag.as_bytes());
    let u = expand_message_xmd_sha256(msg, &dst, 48);
    sc_from_be_bytes_mod::<C>(&u)
}

fn cat3(a: &[u8], b: &[u8], c: &[u8]) -> Vec<u8> {
    let mut v = a.to_vec();
    v.extend_from_slice(b);
    v.extend_from_slice(c);
    v
}

// ---------------------------------------------------------------- ed25519
impl Suite for frost_ed25519::Ed25519Sha512 {
    api_impl!(frost_ed25519);
    const NAME: &'static str = "ed25519";
    const LE: bool = true;
    const SCALAR_LEN: usize = 32;
    const ELEM_LEN: usize = 32;
    const SIG_LEN: usize = 64;
    fn scalar_debug(s: &Sc<Self>) -> String {
        format!("{s:?}")
    }
    fn indep_challenge(r: &[u8], pk: &[u8], msg: &[u8]) -> Sc<Self> {
        // RFC 9591 6.1: H2(m) = SHA-512(m) mod L, little-endian (RFC 8032 compatible)
        let d = Sha512::digest(cat3(r, pk, msg));
        sc_from_le_bytes_mod::<Self>(&d)
    }
    fn ext_verify(vk: &[u8], msg: &[u8], sig: &[u8]) -> Option<bool> {
        let vk: [u8; 32] = vk.try_into().ok()?;
        let sig: [u8; 64] = sig.try_into().ok()?;
        let Ok(vk) = ed25519_dalek::VerifyingKey::from_bytes(&vk) else {
            return Some(false);
        };
        let sig = ed25519_dalek::Signature::from_bytes(&sig);
        Some(vk.verify_strict(msg, &sig).is_ok())
    }
}

// ---------------------------------------------------------------- ristretto255
impl Suite for frost_ristretto255::Ristretto255Sha512 {
    api_impl!(frost_ristretto255);
    const NAME: &'static str = "ristretto255";
    const LE: bool = true;
    const SCALAR_LEN: usize = 32;
    const ELEM_LEN: usize = 32;
    const SIG_LEN: usize = 64;
    fn scalar_debug(s: &Sc<Self>) -> String {
        format!("{s:?}")
    }
    fn indep_challenge(r: &[u8], pk: &[u8], msg: &[u8]) -> Sc<Self> {
        // RFC 9591 6.2: H2(m) = SHA-512(contextString || "chal" || m) mod order, little-endian
        let mut h = Sha512::new();
        h.update(b"FROST-RISTRETTO255-SHA512-v1");
        h.update(b"chal");
        h.update(cat3(r, pk, msg));
        sc_from_le_bytes_mod::<Self>(&h.finalize())
    }
}

// ---------------------------------------------------------------- ed448
impl Suite for frost_ed448::Ed448Shake256 {
    api_impl!(frost_ed448);
    const NAME: &'static str = "ed448";
    const LE: bool = true;
    const SCALAR_LEN: usize = 57;
    const ELEM_LEN: usize = 57;
    const SIG_LEN: usize = 114;
    fn scalar_debug(s: &Sc<Self>) -> String {
        format!("{s:?}")
    }
    fn indep_challenge(r: &[u8], pk: &[u8], msg: &[u8]) -> Sc<Self> {
        // RFC 9591 6.3: H2(m) = SHAKE256("SigEd448" || 0x00 || 0x00 || m, 114) mod order (LE)
        use sha3::digest::{ExtendableOutput, Update, XofReader};
        let mut h = shake::Shake256::default();
        h.update(b"SigEd448");
        h.update(&[0u8, 0u8]);
        h.update(&cat3(r, pk, msg));
        let mut out = [0u8; 114];
        h.finalize_xof().read(&mut out);
        sc_from_le_bytes_mod::<Self>(&out)
    }
}

// ---------------------------------------------------------------- p256
impl Suite for frost_p256::P256Sha256 {
    api_impl!(frost_p256);
    const NAME: &'static str = "p256";
    const LE: bool = false;
    const SCALAR_LEN: usize = 32;
    const ELEM_LEN: usize = 33;
    const SIG_LEN: usize = 65;
    fn scalar_debug(s: &Sc<Self>) -> String {
        format!("{s:?}")
    }
    fn indep_challenge(r: &[u8], pk: &[u8], msg: &[u8]) -> Sc<Self> {
        h2f_sha256::<Self>("FROST-P256-SHA256-v1", "chal", &cat3(r, pk, msg))
    }
}

// ---------------------------------------------------------------- secp256k1
impl Suite for frost_secp256k1::Secp256K1Sha256 {
    api_impl!(frost_secp256k1);
    const NAME: &'static str = "secp256k1";
    const LE: bool = false;
    const SCALAR_LEN: usize = 32;
    const ELEM_LEN: usize = 33;
    const SIG_LEN: usize = 65;
    fn scalar_debug(s: &Sc<Self>) -> String {
        format!("{s:?}")
    }
    fn indep_challenge(r: &[u8], pk: &[u8], msg: &[u8]) -> Sc<Self> {
        h2f_sha256::<Self>("FROST-secp256k1-SHA256-v1", "chal", &cat3(r, pk, msg))
    }
}

// ---------------------------------------------------------------- secp256k1-tr
impl Suite for frost_secp256k1_tr::Secp256K1Sha256TR {
    api_impl!(frost_secp256k1_tr);
    const NAME: &'static str = "secp256k1-tr";
    const LE: bool = false;
    const SCALAR_LEN: usize = 32;
    const ELEM_LEN: usize = 33;
    const SIG_LEN: usize = 64;
    const TAPROOT: bool = true;
    fn scalar_debug(s: &Sc<Self>) -> String {
        format!("{s:?}")
    }
    fn api_aggregate_variants(pkg: &SigningPackage<Self>, shares: &IdMap<Self, SignatureShare<Self>>, pkp: &PublicKeyPackage<Self>) -> Vec<(&'static str, Result<Signature<Self>, Error<Self>>)> {
        let root = [0x5au8; 32];
        vec![
            ("aggregate_with_tweak/no-root", frost_secp256k1_tr::aggregate_with_tweak(pkg, shares, pkp, None)),
            ("aggregate_with_tweak/empty-root", frost_secp256k1_tr::aggregate_with_tweak(pkg, shares, pkp, Some(&[]))),
            ("aggregate_with_tweak/32-byte-root", frost_secp256k1_tr::aggregate_with_tweak(pkg, shares, pkp, Some(&root))),
        ]
    }
    fn api_sign_variants(pkg: &SigningPackage<Self>, nonces: &SigningNonces<Self>, kp: &KeyPackage<Self>) -> Vec<(&'static str, Result<SignatureShare<Self>, Error<Self>>)> {
        let root = [0x5au8; 32];
        vec![
            ("sign_with_tweak/no-root", frost_secp256k1_tr::round2::sign_with_tweak(pkg, nonces, kp, None)),
            ("sign_with_tweak/32-byte-root", frost_secp256k1_tr::round2::sign_with_tweak(pkg, nonces, kp, Some(&root))),
        ]
    }
    fn indep_challenge(r: &[u8], pk: &[u8], msg: &[u8]) -> Sc<Self> {
        // BIP-340: e = int(hash_{BIP0340/challenge}(bytes(r) || bytes(P) || m)) mod n; r, P x-only.
        let rx = if r.len() == 33 { &r[1..] } else { r };
        let px = if pk.len() == 33 { &pk[1..] } else { pk };
        let tag = Sha256::digest(b"BIP0340/challenge");
        let mut h = Sha256::new();
        h.update(tag);
        h.update(tag);
        h.update(rx);
        h.update(px);
        h.update(msg);
        sc_from_be_bytes_mod::<Self>(&h.finalize())
    }
    fn indep_post_dkg(sum_key: El<Self>, share: Sc<Self>) -> (El<Self>, Sc<Self>) {
        // BIP-341: Q = P + int(hash_TapTweak(bytes(P))) G with P taken with even Y
        let enc = el_bytes::<Self>(&sum_key).expect("non-identity key");
        let (p_even, s_even) = if enc[0] == 3 { (ident::<Self>() - sum_key, neg::<Self>(share)) } else { (sum_key, share) };
        let t = tap_tweak_scalar::<Self>(&enc[1..], &[]);
        (p_even + g::<Self>() * t, s_even + t)
    }
    fn ext_verify(vk: &[u8], msg: &[u8], sig: &[u8]) -> Option<bool> {
        let secp = secp256k1::Secp256k1::verification_only();
        let px = if vk.len() == 33 { &vk[1..] } else { vk };
        let Ok(pk) = secp256k1::XOnlyPublicKey::from_byte_array(px.try_into().ok()?) else {
            return Some(false);
        };
        let sig = secp256k1::schnorr::Signature::from_byte_array(sig.try_into().ok()?);
        Some(secp.verify_schnorr(&sig, msg, &pk).is_ok())
    }
}

/// BIP-341 tweak scalar int(hash_TapTweak(x || root)) mod n, from the BIP text.
pub fn tap_tweak_scalar<C: Suite>(px: &[u8], root: &[u8]) -> Sc<C> {
    let tag = Sha256::digest(b"TapTweak");
    let mut h = Sha256::new();
    h.update(tag);
    h.update(tag);
    h.update(px);
    h.update(root);
    sc_from_be_bytes_mod::<C>(&h.finalize())
}

/// Independent plain Schnorr verification of encoded `(vk, msg, sig)`:
/// independent challenge hash + Horner reduction, the curve crate only as a calculator.
/// Prime-order suites: `z*G == R + c*PK`. Taproot: BIP-340 (x-only, even-Y lift).
pub fn indep_verify<C: Suite>(vk: &[u8], msg: &[u8], sig: &[u8]) -> bool {
    if sig.len() != C::SIG_LEN {
        return false;
    }
    if C::TAPROOT {
        let mut pk33 = vec![2u8];
        pk33.extend_from_slice(if vk.len() == 33 { &vk[1..] } else { vk });
        let Some(P) = el_decode::<C>(&pk33) else { return false };
        let (rx, zb) = sig.split_at(32);
        let Some(z) = sc_decode::<C>(zb) else { return false };
        let c = C::indep_challenge(rx, &pk33, msg);
        let Rp = g::<C>() * z - P * c;
        match el_bytes::<C>(&Rp) {
            Some(b) => b[0] == 2 && &b[1..] == rx,
            None => false,
        }
    } else {
        let (rb, zb) = sig.split_at(C::ELEM_LEN);
        let Some(R) = el_decode::<C>(rb) else { return false };
        let Some(z) = sc_decode::<C>(zb) else { return false };
        let Some(P) = el_decode::<C>(vk) else { return false };
        let c = C::indep_challenge(rb, vk, msg);
        g::<C>() * z == R + P * c
    }
}

/// Dispatch a generic function over the suite named at run time.
#[macro_export]
macro_rules! with_suite {
    ($name:expr, $f:ident, $($arg:expr),*) => {
        match $name {
            "ed25519" => $f::<frost_ed25519::Ed25519Sha512>($($arg),*),
            "ristretto255" => $f::<frost_ristretto255::Ristretto255Sha512>($($arg),*),
            "ed448" => $f::<frost_ed448::Ed448Shake256>($($arg),*),
            "p256" => $f::<frost_p256::P256Sha256>($($arg),*),
            "secp256k1" => $f::<frost_secp256k1::Secp256K1Sha256>($($arg),*),
            "secp256k1-tr" => $f::<frost_secp256k1_tr::Secp256K1Sha256TR>($($arg),*),
            other => panic!("unknown suite {other}"),
        }
    };
}

pub const SUITES: [&str; 6] = ["ed25519", "ristretto255", "ed448", "p256", "secp256k1", "secp256k1-tr"];

#[allow(dead_code)]
fn _assert_traits<C: Ciphersuite>() {
    let _ = <<C::Group as Group>::Field as Field>::zero();
}
