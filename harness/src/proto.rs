//! Honest protocol drivers used by many workloads: dealer keygen, full DKG, a signing session.

use std::collections::BTreeMap;

use frost_core::keys::dkg;
use frost_core::keys::{IdentifierList, KeyPackage, PublicKeyPackage, SecretShare};
use frost_core::round1::{SigningCommitments, SigningNonces};
use frost_core::round2::SignatureShare;
use frost_core::{Error, Identifier, SigningKey, SigningPackage};

use crate::alg::*;
use crate::rng::TraceRng;
use crate::suite::Suite;

pub type IdMap<C, T> = BTreeMap<Identifier<C>, T>;

#[derive(Clone)]
pub struct Grp<C: Suite> {
    pub n: u16,
    pub t: u16,
    /// identifiers in *numeric* order (independent of the library's Ord)
    pub ids: Vec<Identifier<C>>,
    pub kps: IdMap<C, KeyPackage<C>>,
    pub pkp: PublicKeyPackage<C>,
    pub shares: IdMap<C, SecretShare<C>>,
    /// group secret when the harness chose it (dealer split)
    pub secret: Option<Sc<C>>,
    pub source: &'static str,
}

/// Dealer keygen with a key chosen by the harness (so the secret is known to the oracle).
pub fn dealer_group<C: Suite>(
    n: u16,
    t: u16,
    ids: Option<&[Identifier<C>]>,
    key: Option<Sc<C>>,
    rng: &mut TraceRng,
) -> Result<Grp<C>, Error<C>> {
    let (shares, pkp, secret) = match key {
        Some(k) => {
            let sk = SigningKey::<C>::from_scalar(k)?;
            let il = match ids {
                Some(l) => IdentifierList::Custom(l),
                None => IdentifierList::Default,
            };
            let (s, p) = C::api_split(&sk, n, t, il, rng)?;
            (s, p, Some(k))
        }
        None => {
            let il = match ids {
                Some(l) => IdentifierList::Custom(l),
                None => IdentifierList::Default,
            };
            let (s, p) = C::api_generate_with_dealer(n, t, il, rng)?;
            (s, p, None)
        }
    };
    let mut kps = BTreeMap::new();
    for (id, sh) in &shares {
        kps.insert(*id, KeyPackage::try_from(sh.clone())?);
    }
    let mut idv: Vec<_> = shares.keys().copied().collect();
    sort_ids_numeric::<C>(&mut idv);
    Ok(Grp { n, t, ids: idv, kps, pkp, shares, secret, source: "dealer" })
}

pub struct DkgRun<C: Suite> {
    pub r1_secret: IdMap<C, dkg::round1::SecretPackage<C>>,
    pub r1_pkgs: IdMap<C, dkg::round1::Package<C>>,
    pub r2_secret: IdMap<C, dkg::round2::SecretPackage<C>>,
    /// r2_pkgs[sender][recipient]
    pub r2_pkgs: IdMap<C, IdMap<C, dkg::round2::Package<C>>>,
    /// coefficients of every participant's polynomial (constant term first)
    pub coeffs: IdMap<C, Vec<Sc<C>>>,
}

/// Honest DKG parts 1 and 2 for all participants.
pub fn dkg_rounds<C: Suite>(
    n: u16,
    t: u16,
    ids: &[Identifier<C>],
    rng: &mut TraceRng,
) -> Result<DkgRun<C>, Error<C>> {
    let mut r1_secret = BTreeMap::new();
    let mut r1_pkgs = BTreeMap::new();
    let mut coeffs = BTreeMap::new();
    for id in ids {
        let (s, p) = C::api_dkg_part1(*id, n, t, &mut *rng)?;
        coeffs.insert(*id, s.coefficients());
        r1_secret.insert(*id, s);
        r1_pkgs.insert(*id, p);
    }
    dkg_round2_all::<C>(ids, r1_secret, r1_pkgs, coeffs)
}

/// Honest part 2 for all participants, from given round-one state (which a workload may have built by hand).
pub fn dkg_round2_all<C: Suite>(
    ids: &[Identifier<C>],
    r1_secret: IdMap<C, dkg::round1::SecretPackage<C>>,
    r1_pkgs: IdMap<C, dkg::round1::Package<C>>,
    coeffs: IdMap<C, Vec<Sc<C>>>,
) -> Result<DkgRun<C>, Error<C>> {
    let mut r2_secret = BTreeMap::new();
    let mut r2_pkgs = BTreeMap::new();
    for id in ids {
        let mut recv = r1_pkgs.clone();
        recv.remove(id);
        let (s, p) = C::api_dkg_part2(r1_secret[id].clone(), &recv)?;
        r2_secret.insert(*id, s);
        r2_pkgs.insert(*id, p);
    }
    Ok(DkgRun { r1_secret, r1_pkgs, r2_secret, r2_pkgs, coeffs })
}

/// Honest part 3 for all participants of a run.
pub fn dkg_finish<C: Suite>(n: u16, t: u16, ids: &[Identifier<C>], run: DkgRun<C>) -> Result<(Grp<C>, DkgRun<C>, IdMap<C, PublicKeyPackage<C>>), Error<C>> {
    let mut kps = BTreeMap::new();
    let mut pkps = BTreeMap::new();
    for id in ids {
        let (r1, r2) = dkg_inbox(&run, id);
        let (kp, pkp) = C::api_dkg_part3(&run.r2_secret[id], &r1, &r2)?;
        kps.insert(*id, kp);
        pkps.insert(*id, pkp);
    }
    let mut idv = ids.to_vec();
    sort_ids_numeric::<C>(&mut idv);
    let pkp = pkps[&idv[0]].clone();
    Ok((Grp { n, t, ids: idv, kps, pkp, shares: BTreeMap::new(), secret: None, source: "dkg" }, run, pkps))
}

pub fn dkg_inbox<C: Suite>(
    run: &DkgRun<C>,
    me: &Identifier<C>,
) -> (IdMap<C, dkg::round1::Package<C>>, IdMap<C, dkg::round2::Package<C>>) {
    let mut r1 = run.r1_pkgs.clone();
    r1.remove(me);
    let mut r2 = BTreeMap::new();
    for (sender, m) in &run.r2_pkgs {
        if sender != me {
            if let Some(p) = m.get(me) {
                r2.insert(*sender, p.clone());
            }
        }
    }
    (r1, r2)
}

pub fn dkg_group<C: Suite>(
    n: u16,
    t: u16,
    ids: &[Identifier<C>],
    rng: &mut TraceRng,
) -> Result<(Grp<C>, DkgRun<C>, IdMap<C, PublicKeyPackage<C>>), Error<C>> {
    let run = dkg_rounds::<C>(n, t, ids, rng)?;
    let mut kps = BTreeMap::new();
    let mut pkps = BTreeMap::new();
    for id in ids {
        let (r1, r2) = dkg_inbox(&run, id);
        let (kp, pkp) = C::api_dkg_part3(&run.r2_secret[id], &r1, &r2)?;
        kps.insert(*id, kp);
        pkps.insert(*id, pkp);
    }
    let mut idv = ids.to_vec();
    sort_ids_numeric::<C>(&mut idv);
    let pkp = pkps[&idv[0]].clone();
    Ok((Grp { n, t, ids: idv, kps, pkp, shares: BTreeMap::new(), secret: None, source: "dkg" }, run, pkps))
}

#[derive(Clone)]
pub struct Session<C: Suite> {
    pub signers: Vec<Identifier<C>>,
    pub nonces: IdMap<C, SigningNonces<C>>,
    pub comms: IdMap<C, SigningCommitments<C>>,
    pub pkg: SigningPackage<C>,
    pub shares: IdMap<C, SignatureShare<C>>,
}

/// Round 1 for the given signers.
pub fn commit_all<C: Suite>(
    grp: &Grp<C>,
    signers: &[Identifier<C>],
    rng: &mut TraceRng,
) -> (IdMap<C, SigningNonces<C>>, IdMap<C, SigningCommitments<C>>) {
    let mut nonces = BTreeMap::new();
    let mut comms = BTreeMap::new();
    for id in signers {
        let (nn, cc) = C::api_commit(grp.kps[id].signing_share(), rng);
        nonces.insert(*id, nn);
        comms.insert(*id, cc);
    }
    (nonces, comms)
}

/// Honest two-round signing session; returns the first error of `sign` if any.
pub fn sign_session<C: Suite>(
    grp: &Grp<C>,
    signers: &[Identifier<C>],
    msg: &[u8],
    rng: &mut TraceRng,
) -> Result<Session<C>, (Identifier<C>, Error<C>)> {
    let (nonces, comms) = commit_all(grp, signers, rng);
    let pkg = SigningPackage::new(comms.clone(), msg);
    let mut shares = BTreeMap::new();
    for id in signers {
        let sh = C::api_sign(&pkg, &nonces[id], &grp.kps[id]).map_err(|e| (*id, e))?;
        shares.insert(*id, sh);
    }
    Ok(Session { signers: signers.to_vec(), nonces, comms, pkg, shares })
}

pub fn err_name<C: Suite>(e: &Error<C>) -> String {
    let s = format!("{e:?}");
    s.split(|c: char| !c.is_alphanumeric()).next().unwrap_or("").to_string()
}

pub fn pick_ids<C: Suite>(ids: &[Identifier<C>], idx: &[usize]) -> Vec<Identifier<C>> {
    idx.iter().map(|i| ids[*i]).collect()
}
