//! (filled in by the C20 work) instrumented global allocator.
