//! Instrumented global allocator for C20 ("secret sanitizer"). Installed only in the `zprobe` binary.
//!
//! * TRACK: every block allocated is recorded (the heap blocks a freshly cloned value owns).
//! * ARMED: every block is scanned for the registered secret byte patterns at `dealloc`, *before* the
//!   memory goes back to the system allocator; freed blocks are recorded for the conservation check.
//!
//! The monitor never allocates and keeps all of its state in statics (single-threaded use).

use std::alloc::{GlobalAlloc, Layout, System};
use std::sync::atomic::{AtomicUsize, Ordering::SeqCst};

pub struct MonAlloc;

pub const OFF: usize = 0;
pub const TRACK: usize = 1;
pub const ARMED: usize = 2;

const MAXB: usize = 512;
const MAXP: usize = 24;
const PLEN: usize = 64;

static MODE: AtomicUsize = AtomicUsize::new(OFF);
static mut TRACKED: [(usize, usize); MAXB] = [(0, 0); MAXB];
static TRACK_N: AtomicUsize = AtomicUsize::new(0);
static mut FREED: [(usize, usize); MAXB] = [(0, 0); MAXB];
/// did the scan of the k-th freed block find a secret pattern?
static mut FREED_HIT: [bool; MAXB] = [false; MAXB];
static FREED_N: AtomicUsize = AtomicUsize::new(0);
static mut PATTERNS: [[u8; PLEN]; MAXP] = [[0; PLEN]; MAXP];
static mut PAT_LEN: [usize; MAXP] = [0; MAXP];
static PAT_N: AtomicUsize = AtomicUsize::new(0);
static HITS: AtomicUsize = AtomicUsize::new(0);
static HIT_PATTERN: AtomicUsize = AtomicUsize::new(usize::MAX);
static HIT_BLOCK_SIZE: AtomicUsize = AtomicUsize::new(0);
static SCANNED_BLOCKS: AtomicUsize = AtomicUsize::new(0);
static SCANNED_BYTES: AtomicUsize = AtomicUsize::new(0);

#[allow(static_mut_refs)]
unsafe impl GlobalAlloc for MonAlloc {
    unsafe fn alloc(&self, l: Layout) -> *mut u8 {
        let p = unsafe { System.alloc(l) };
        if MODE.load(SeqCst) == TRACK && !p.is_null() {
            let n = TRACK_N.load(SeqCst);
            if n < MAXB {
                unsafe { TRACKED[n] = (p as usize, l.size()) };
                TRACK_N.store(n + 1, SeqCst);
            }
        }
        p
    }
    unsafe fn dealloc(&self, p: *mut u8, l: Layout) {
        if MODE.load(SeqCst) == ARMED {
            let h = unsafe { scan_raw(p, l.size()) };
            let n = FREED_N.load(SeqCst);
            if n < MAXB {
                unsafe {
                    FREED[n] = (p as usize, l.size());
                    FREED_HIT[n] = h > 0;
                }
                FREED_N.store(n + 1, SeqCst);
            }
        }
        unsafe { System.dealloc(p, l) }
    }
    // realloc: the trait's default (alloc + copy + dealloc) goes through the two hooks above
}

/// scan `len` bytes at `p` for every registered pattern; returns number of hits
#[allow(static_mut_refs)]
pub unsafe fn scan_raw(p: *const u8, len: usize) -> usize {
    SCANNED_BLOCKS.fetch_add(1, SeqCst);
    SCANNED_BYTES.fetch_add(len, SeqCst);
    let np = PAT_N.load(SeqCst);
    let mut hits = 0;
    for k in 0..np {
        let pl = unsafe { PAT_LEN[k] };
        if pl == 0 || pl > len {
            continue;
        }
        let mut i = 0;
        while i + pl <= len {
            let mut eq = true;
            let mut j = 0;
            while j < pl {
                let b = unsafe { core::ptr::read_volatile(p.add(i + j)) };
                if b != unsafe { PATTERNS[k][j] } {
                    eq = false;
                    break;
                }
                j += 1;
            }
            if eq {
                hits += 1;
                HITS.fetch_add(1, SeqCst);
                HIT_PATTERN.store(k, SeqCst);
                HIT_BLOCK_SIZE.store(len, SeqCst);
                break;
            }
            i += 1;
        }
    }
    hits
}

pub fn set_mode(m: usize) {
    MODE.store(m, SeqCst);
}
pub fn reset_tracking() {
    TRACK_N.store(0, SeqCst);
    FREED_N.store(0, SeqCst);
}
pub fn reset_hits() {
    HITS.store(0, SeqCst);
    HIT_PATTERN.store(usize::MAX, SeqCst);
}
pub fn hits() -> usize {
    HITS.load(SeqCst)
}
pub fn hit_info() -> (usize, usize) {
    (HIT_PATTERN.load(SeqCst), HIT_BLOCK_SIZE.load(SeqCst))
}
pub fn scanned() -> (usize, usize) {
    (SCANNED_BLOCKS.load(SeqCst), SCANNED_BYTES.load(SeqCst))
}
#[allow(static_mut_refs)]
pub fn clear_patterns() {
    PAT_N.store(0, SeqCst);
    unsafe {
        for k in 0..MAXP {
            PAT_LEN[k] = 0;
        }
    }
}
/// register a secret byte pattern (ignored when it is too uniform to be meaningful)
#[allow(static_mut_refs)]
pub fn add_pattern(b: &[u8]) -> bool {
    let distinct = {
        let mut seen = [false; 256];
        let mut n = 0;
        for x in b {
            if !seen[*x as usize] {
                seen[*x as usize] = true;
                n += 1;
            }
        }
        n
    };
    let n = PAT_N.load(SeqCst);
    if b.len() < 16 || b.len() > PLEN || distinct < 8 || n >= MAXP {
        return false;
    }
    unsafe {
        PATTERNS[n][..b.len()].copy_from_slice(b);
        PAT_LEN[n] = b.len();
    }
    PAT_N.store(n + 1, SeqCst);
    true
}
#[allow(static_mut_refs)]
pub fn tracked() -> ([(usize, usize); MAXB], usize) {
    unsafe { (TRACKED, TRACK_N.load(SeqCst)) }
}
#[allow(static_mut_refs)]
pub fn freed() -> ([(usize, usize); MAXB], usize) {
    unsafe { (FREED, FREED_N.load(SeqCst)) }
}
/// verdict for one block that was live when the allocator was armed: Some(hit) for the *first* time that address was
/// freed afterwards (later frees of the same address belong to other, re-allocated blocks), None if it never was
#[allow(static_mut_refs)]
pub fn first_free_of(ptr: usize) -> Option<bool> {
    let n = FREED_N.load(SeqCst);
    for k in 0..n {
        if unsafe { FREED[k].0 } == ptr {
            return Some(unsafe { FREED_HIT[k] });
        }
    }
    None
}
