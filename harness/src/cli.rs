//! shared command line of the harness binaries
use std::path::PathBuf;

use crate::ctx::{Ctx, Tier, install_panic_hook};

/// A process may use several ciphersuites. `--prelude <suite>` runs a small workload of *another* ciphersuite before
/// the property's own workload, so that anything the library caches per process (instead of per ciphersuite) is
/// already filled with the other suite's values. The driver gives it to every odd-numbered shard.
pub fn prelude_suite() -> Option<String> {
    let args: Vec<String> = std::env::args().collect();
    args.iter().position(|a| a == "--prelude").and_then(|i| args.get(i + 1).cloned())
}

pub fn prelude<D: crate::Suite>() {
    use crate::proto::*;
    use crate::wire::Wire;
    let mut rng = crate::rng::TraceRng::from_parts(&[b"prelude", D::NAME.as_bytes()]);
    let Ok(g) = dealer_group::<D>(3, 2, None, None, &mut rng) else { return };
    let signers = g.ids[..2].to_vec();
    let Ok(sess) = sign_session(&g, &signers, b"prelude", &mut rng) else { return };
    let sig = D::api_aggregate(&sess.pkg, &sess.shares, &g.pkp);
    // every kind of encoding and decoding once
    macro_rules! rt {
        ($v:expr, $t:ty) => {{
            if let Ok(b) = <$t as Wire<D>>::enc(&$v) {
                let _ = <$t as Wire<D>>::dec(&b);
            }
            if let Ok(s) = <$t as Wire<D>>::to_json(&$v) {
                let _ = <$t as Wire<D>>::from_json(&s);
            }
        }};
    }
    let me = g.ids[0];
    rt!(g.kps[&me].clone(), frost_core::keys::KeyPackage<D>);
    rt!(g.pkp.clone(), frost_core::keys::PublicKeyPackage<D>);
    rt!(g.shares[&me].clone(), frost_core::keys::SecretShare<D>);
    rt!(g.shares[&me].commitment().clone(), frost_core::keys::VerifiableSecretSharingCommitment<D>);
    rt!(sess.pkg.clone(), frost_core::SigningPackage<D>);
    rt!(sess.nonces[&me].clone(), frost_core::round1::SigningNonces<D>);
    rt!(sess.comms[&me], frost_core::round1::SigningCommitments<D>);
    rt!(sess.shares[&me], frost_core::round2::SignatureShare<D>);
    rt!(me, frost_core::Identifier<D>);
    if let Ok(s) = &sig {
        rt!(*s, frost_core::Signature<D>);
        let _ = g.pkp.verifying_key().verify(b"prelude", s);
        let mut v = frost_core::batch::Verifier::<D>::new();
        if let Ok(it) = frost_core::batch::Item::<D>::new(*g.pkp.verifying_key(), *s, b"prelude") {
            v.queue(it);
        }
        let _ = v.verify(&mut rng);
    }
    if let Ok((gd, run, _)) = dkg_group::<D>(2, 2, &g.ids[..2], &mut rng) {
        rt!(run.r1_pkgs[&me].clone(), frost_core::keys::dkg::round1::Package<D>);
        rt!(run.r1_secret[&me].clone(), frost_core::keys::dkg::round1::SecretPackage<D>);
        rt!(run.r2_secret[&me].clone(), frost_core::keys::dkg::round2::SecretPackage<D>);
        let _ = gd;
    }
    let _ = frost_core::Identifier::<D>::derive(b"prelude");
    let _ = frost_rerandomized::RandomizedParams::<D>::new_from_commitments(g.pkp.verifying_key(), &sess.comms, &mut rng);
    let _ = D::api_reconstruct(&g.kps.values().cloned().collect::<Vec<_>>());
    if let Ok((rs, _)) = D::api_compute_refreshing_shares(g.pkp.clone(), &g.ids, &mut rng) {
        let _ = D::api_refresh_share(rs[0].clone(), &g.kps[&g.ids[0]]);
    }
    if let Ok(d) = D::api_repair_part1(&g.ids[1..], &g.kps[&g.ids[1]], &mut rng, g.ids[0]) {
        let _ = D::api_repair_part2(&d.values().copied().collect::<Vec<_>>());
    }
}

pub fn parse() -> Ctx {
    let args: Vec<String> = std::env::args().collect();
    let mut prop = String::new();
    let mut suite = String::from("ed25519");
    let mut tier = Tier::Quick;
    let mut seed = 1u64;
    let mut shard = 0usize;
    let mut nshards = 1usize;
    let mut only: Option<u64> = None;
    let mut out = PathBuf::from("/verif/run/tmp");
    let mut i = 1;
    while i < args.len() {
        match args[i].as_str() {
            "--suite" => { suite = args[i + 1].clone(); i += 1; }
            "--tier" => { tier = if args[i + 1] == "thorough" { Tier::Thorough } else { Tier::Quick }; i += 1; }
            "--seed" => { seed = args[i + 1].parse().expect("seed"); i += 1; }
            "--shard" => {
                let (a, b) = args[i + 1].split_once('/').expect("i/N");
                shard = a.parse().unwrap();
                nshards = b.parse().unwrap();
                i += 1;
            }
            "--only-item" => { only = Some(args[i + 1].parse().unwrap()); i += 1; }
            "--out" => { out = PathBuf::from(&args[i + 1]); i += 1; }
            "--prelude" => { i += 1; }
            "--resume" => { i += 1; }
            a if prop.is_empty() && !a.starts_with("--") => prop = a.to_string(),
            a => { eprintln!("unknown arg {a}"); std::process::exit(64); }
        }
        i += 1;
    }
    install_panic_hook();
    Ctx::new(&prop, &suite, tier, seed, shard, nshards, only, out)
}
