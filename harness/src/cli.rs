//! shared command line of the harness binaries
use std::path::PathBuf;

use crate::ctx::{Ctx, Tier, install_panic_hook};

pub fn parse() -> Ctx {
    let args: Vec<String> = std::env::args().collect();
    let mut prop = String::new();
    let mut suite = String::from("ed25519");
    let mut tier = Tier::Quick;
    let mut seed = 1u64;
    let mut shard = 0usize;
    let mut nshards = 1usize;
    let mut only: Option<u64> = None;
    let mut out = PathBuf::from("/verif/run/tmp");
    let mut i = 1;
    while i < args.len() {
        match args[i].as_str() {
            "--suite" => { suite = args[i + 1].clone(); i += 1; }
            "--tier" => { tier = if args[i + 1] == "thorough" { Tier::Thorough } else { Tier::Quick }; i += 1; }
            "--seed" => { seed = args[i + 1].parse().expect("seed"); i += 1; }
            "--shard" => {
                let (a, b) = args[i + 1].split_once('/').expect("i/N");
                shard = a.parse().unwrap();
                nshards = b.parse().unwrap();
                i += 1;
            }
            "--only-item" => { only = Some(args[i + 1].parse().unwrap()); i += 1; }
            "--out" => { out = PathBuf::from(&args[i + 1]); i += 1; }
            a if prop.is_empty() && !a.starts_with("--") => prop = a.to_string(),
            a => { eprintln!("unknown arg {a}"); std::process::exit(64); }
        }
        i += 1;
    }
    install_panic_hook();
    Ctx::new(&prop, &suite, tier, seed, shard, nshards, only, out)
}
