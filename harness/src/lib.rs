//! `fv` — runtime-monitoring harness for ZcashFoundation/frost (see /verif/DESIGN.md).
#![allow(non_snake_case)]
#![allow(unused_imports, unused_assignments)]
#![allow(clippy::type_complexity)]

pub mod alg;
pub mod alloc_mon;
pub mod cli;
pub mod corpus;
pub mod ctx;
pub mod gen_;
pub mod mutate;
pub mod proto;
pub mod rng;
pub mod suite;
pub mod wire;

pub mod props;

pub use ctx::Ctx;
pub use suite::Suite;
