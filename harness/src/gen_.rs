//! Workload generators shared by all properties: shapes, identifier kinds, subsets, messages.

use frost_core::Identifier;

use crate::alg::*;
use crate::rng::Pick;
use crate::suite::Suite;

pub const ID_KINDS: [&str; 5] = ["default", "sparse-u16", "derived", "big-scalar", "mixed"];

/// all (n,t) with 2<=t<=n<=max_n
pub fn shapes(max_n: u16) -> Vec<(u16, u16)> {
    let mut v = vec![];
    for n in 2..=max_n {
        for t in 2..=n {
            v.push((n, t));
        }
    }
    v
}

fn big_scalars<C: Suite>(p: &mut Pick) -> Vec<Sc<C>> {
    let two16 = sc_u64::<C>(1 << 16);
    let two64p1 = sc_u64::<C>(u64::MAX) + sc_u64::<C>(2);
    vec![
        two16,
        two64p1,
        neg::<C>(one::<C>()),
        neg::<C>(sc_u64::<C>(2)),
        sc_from_be_bytes_mod::<C>(&p.bytes(64)),
        sc_from_be_bytes_mod::<C>(&p.bytes(64)),
        sc_u64::<C>(65537),
        sc_from_be_bytes_mod::<C>(&p.bytes(9)),
        // 1, 2^16+1 (above), 2^64+1 (above) and 2^128+1 agree modulo 2^16 / 2^64 / 2^128: anything that compares or
        // sorts identifiers by a truncated integer confuses them
        one::<C>(),
        {
            let t32 = sc_u64::<C>(1 << 32);
            t32 * t32 * t32 * t32 + one::<C>()
        },
    ]
}

/// n distinct identifiers of the given kind, in a *shuffled* (insertion) order.
pub fn identifiers<C: Suite>(kind: &str, n: usize, p: &mut Pick) -> Vec<Identifier<C>> {
    let mut out: Vec<Identifier<C>> = vec![];
    let push = |id: Identifier<C>, out: &mut Vec<Identifier<C>>| {
        if !out.contains(&id) {
            out.push(id);
        }
    };
    match kind {
        "default" => {
            for i in 1..=n as u16 {
                push(Identifier::<C>::try_from(i).unwrap(), &mut out);
            }
            return out; // default order kept: this is what IdentifierList::Default produces
        }
        "sparse-u16" => {
            push(Identifier::<C>::try_from(65535u16).unwrap(), &mut out);
            if n >= 2 {
                push(Identifier::<C>::try_from(1u16).unwrap(), &mut out);
            }
            let fixed = [256u16, 255, 257, 42, 32768, 65534, 2, 100];
            let mut k = 0;
            while out.len() < n {
                let v = if k < fixed.len() && p.coin() { fixed[k] } else { (p.u64() % 65535) as u16 + 1 };
                k += 1;
                push(Identifier::<C>::try_from(v).unwrap(), &mut out);
            }
        }
        "derived" => {
            let salt = p.bytes(4);
            let mut k = 0u32;
            while out.len() < n {
                let mut s = format!("participant-{k}@example.org/").into_bytes();
                s.extend_from_slice(&salt);
                k += 1;
                if let Ok(id) = Identifier::<C>::derive(&s) {
                    push(id, &mut out);
                }
            }
        }
        "big-scalar" => {
            let mut bs = big_scalars::<C>(p);
            p.shuffle(&mut bs);
            for s in bs {
                if out.len() < n {
                    if let Ok(id) = Identifier::<C>::new(s) {
                        push(id, &mut out);
                    }
                }
            }
            while out.len() < n {
                if let Ok(id) = Identifier::<C>::new(sc_from_be_bytes_mod::<C>(&p.bytes(48))) {
                    push(id, &mut out);
                }
            }
        }
        "mixed" => {
            let mut k = 0;
            while out.len() < n {
                let sub = ["default", "sparse-u16", "derived", "big-scalar"][k % 4];
                k += 1;
                let cand = if sub == "default" {
                    vec![Identifier::<C>::try_from((p.below(6) + 1) as u16).unwrap()]
                } else {
                    identifiers::<C>(sub, 2, p)
                };
                push(cand[p.below(cand.len())], &mut out);
            }
        }
        _ => panic!("unknown id kind {kind}"),
    }
    p.shuffle(&mut out);
    out
}

pub fn messages(p: &mut Pick) -> Vec<(&'static str, Vec<u8>)> {
    vec![
        ("empty", vec![]),
        ("1byte", vec![0x61]),
        ("len31", p.bytes(31)),
        ("len32", p.bytes(32)),
        ("len33", p.bytes(33)),
        ("len63", p.bytes(63)),
        ("len64", p.bytes(64)),
        ("len65", p.bytes(65)),
        ("len127", p.bytes(127)),
        ("len128", p.bytes(128)),
        ("len129", p.bytes(129)),
        ("1KiB", p.bytes(1024)),
        ("zeros", vec![0u8; 40]),
        ("ff", vec![0xffu8; 40]),
        ("64KiB", p.bytes(65536)),
    ]
}

pub fn binom(n: usize, k: usize) -> u128 {
    if k > n {
        return 0;
    }
    let mut r: u128 = 1;
    for i in 0..k.min(n - k) {
        r = r * (n - i) as u128 / (i + 1) as u128;
    }
    r
}

/// all k-subsets of 0..n
pub fn combos(n: usize, k: usize) -> Vec<Vec<usize>> {
    let mut out = vec![];
    let mut cur = vec![];
    fn rec(start: usize, n: usize, k: usize, cur: &mut Vec<usize>, out: &mut Vec<Vec<usize>>) {
        if cur.len() == k {
            out.push(cur.clone());
            return;
        }
        for i in start..n {
            if n - i < k - cur.len() {
                break;
            }
            cur.push(i);
            rec(i + 1, n, k, cur, out);
            cur.pop();
        }
    }
    rec(0, n, k, &mut cur, &mut out);
    out
}

/// k-subsets of 0..n: all of them when few, otherwise a seeded sample that always contains the
/// prefix, the suffix, "every other", and sets with the smallest / largest index.
pub fn subsets(n: usize, k: usize, cap: usize, p: &mut Pick) -> Vec<Vec<usize>> {
    if binom(n, k) <= cap as u128 {
        return combos(n, k);
    }
    let mut out: Vec<Vec<usize>> = vec![];
    let add = |mut s: Vec<usize>, out: &mut Vec<Vec<usize>>| {
        s.sort();
        s.dedup();
        if s.len() == k && !out.contains(&s) {
            out.push(s);
        }
    };
    add((0..k).collect(), &mut out);
    add((n - k..n).collect(), &mut out);
    let mut eo: Vec<usize> = (0..n).step_by(2).collect();
    let mut fill = 1;
    while eo.len() < k {
        eo.push(fill);
        fill += 2;
    }
    eo.truncate(k);
    add(eo, &mut out);
    let mut guard = 0;
    while out.len() < cap && guard < cap * 20 {
        guard += 1;
        let mut s = p.subset(n, k);
        if guard % 3 == 0 && !s.contains(&(n - 1)) {
            s[k - 1] = n - 1;
        }
        if guard % 3 == 1 && !s.contains(&0) {
            s[0] = 0;
        }
        add(s, &mut out);
    }
    out
}

/// all non-empty subsets of 0..n as bitmasks
pub fn nonempty_masks(n: usize) -> Vec<u32> {
    (1u32..(1u32 << n)).collect()
}
