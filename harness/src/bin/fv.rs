use fv::ctx::Ctx;
use fv::{Suite, with_suite};

fn run_one<C: Suite>(ctx: &mut Ctx) {
    fv::props::run::<C>(ctx)
}

fn main() {
    let mut ctx = fv::cli::parse();
    if let Some(p) = fv::cli::prelude_suite() {
        fn pre<D: Suite>() {
            fv::cli::prelude::<D>()
        }
        with_suite!(p.as_str(), pre,);
        ctx.note("prelude_suite", serde_json::json!(p));
    }
    let suite = ctx.suite.clone();
    let args: Vec<String> = std::env::args().collect();
    if let Some(i) = args.iter().position(|a| a == "--resume") {
        fn res<C: Suite>(ctx: &mut Ctx, f: &str) {
            fv::props::c13::xproc_resume::<C>(ctx, f)
        }
        with_suite!(suite.as_str(), res, &mut ctx, &args[i + 1]);
        std::process::exit(ctx.finish());
    }
    with_suite!(suite.as_str(), run_one, &mut ctx);
    std::process::exit(ctx.finish());
}
