//! C20 probe: the harness with the instrumented allocator installed.
use fv::ctx::Ctx;
use fv::{Suite, with_suite};

#[global_allocator]
static A: fv::alloc_mon::MonAlloc = fv::alloc_mon::MonAlloc;

fn run_one<C: Suite>(ctx: &mut Ctx) {
    fv::props::c20::run::<C>(ctx)
}

fn main() {
    let mut ctx = fv::cli::parse();
    if let Some(p) = fv::cli::prelude_suite() {
        fn pre<D: Suite>() {
            fv::cli::prelude::<D>()
        }
        with_suite!(p.as_str(), pre,);
        ctx.note("prelude_suite", serde_json::json!(p));
    }
    let suite = ctx.suite.clone();
    with_suite!(suite.as_str(), run_one, &mut ctx);
    std::process::exit(ctx.finish());
}
