//! Per-shard run context: item scheduling (sharding / replay), statistics, coverage classes,
//! violations, samples, the JSONL event log for the offline Python checkers, and the
//! write-ahead record used to attribute a dead shard to its last input.

use std::cell::RefCell;
use std::collections::{BTreeMap, BTreeSet};
use std::fs::File;
use std::io::{BufWriter, Seek, SeekFrom, Write};
use std::panic::{AssertUnwindSafe, catch_unwind};
use std::path::PathBuf;

use serde_json::{Value, json};

use crate::rng::{Pick, TraceRng};

#[derive(Clone, Copy, PartialEq, Eq, Debug)]
pub enum Tier {
    Quick,
    Thorough,
}

thread_local! {
    pub static LAST_PANIC: RefCell<Option<String>> = const { RefCell::new(None) };
}

pub fn install_panic_hook() {
    std::panic::set_hook(Box::new(|info| {
        let loc = info.location().map(|l| format!("{}:{}", l.file(), l.line())).unwrap_or_default();
        let msg = if let Some(s) = info.payload().downcast_ref::<&str>() {
            s.to_string()
        } else if let Some(s) = info.payload().downcast_ref::<String>() {
            s.clone()
        } else {
            "<non-string panic>".into()
        };
        LAST_PANIC.with(|p| *p.borrow_mut() = Some(format!("{loc}: {msg}")));
    }));
}

pub struct Ctx {
    pub prop: String,
    pub suite: String,
    pub tier: Tier,
    pub seed: u64,
    pub shard: usize,
    pub nshards: usize,
    pub only_item: Option<u64>,
    item_counter: u64,
    pub cur_item: u64,
    pub cur_desc: String,
    pub items_run: u64,
    pub counts: BTreeMap<String, u64>,
    pub classes: BTreeSet<String>,
    pub viols: Vec<Value>,
    viol_per_sig: BTreeMap<String, u64>,
    pub samples: Vec<Value>,
    pub notes: BTreeMap<String, Value>,
    pub out_dir: PathBuf,
    events: Option<BufWriter<File>>,
    wal: Option<File>,
    pub max_samples: usize,
    item_started: Option<std::time::Instant>,
    slowest: Vec<(u64, u64, String)>,
}

impl Ctx {
    pub fn new(
        prop: &str,
        suite: &str,
        tier: Tier,
        seed: u64,
        shard: usize,
        nshards: usize,
        only_item: Option<u64>,
        out_dir: PathBuf,
    ) -> Self {
        std::fs::create_dir_all(&out_dir).ok();
        Ctx {
            prop: prop.into(),
            suite: suite.into(),
            tier,
            seed,
            shard,
            nshards,
            only_item,
            item_counter: 0,
            cur_item: 0,
            cur_desc: String::new(),
            items_run: 0,
            counts: BTreeMap::new(),
            classes: BTreeSet::new(),
            viols: vec![],
            viol_per_sig: BTreeMap::new(),
            samples: vec![],
            notes: BTreeMap::new(),
            out_dir,
            events: None,
            wal: None,
            max_samples: 3,
            item_started: None,
            slowest: vec![],
        }
    }

    pub fn quick(&self) -> bool {
        self.tier == Tier::Quick
    }
    pub fn scale<T>(&self, q: T, t: T) -> T {
        if self.quick() { q } else { t }
    }
    fn base(&self) -> String {
        format!("{}.{}.{}", self.prop, self.suite, self.shard)
    }

    /// Announce the next work item. Returns true when this shard (or replay) must execute it.
    /// Items are numbered in generation order, which depends only on (tier, suite) —
    /// never on the shard — so `--only-item k` replays exactly item k.
    pub fn item(&mut self, desc: &str) -> bool {
        let k = self.item_counter;
        self.item_counter += 1;
        let mine = match self.only_item {
            Some(o) => o == k,
            None => (k as usize) % self.nshards == self.shard,
        };
        if mine {
            self.close_item();
            self.item_started = Some(std::time::Instant::now());
            self.cur_item = k;
            self.cur_desc = desc.to_string();
            self.items_run += 1;
        }
        mine
    }
    fn close_item(&mut self) {
        if let Some(t0) = self.item_started.take() {
            self.slowest.push((t0.elapsed().as_millis() as u64, self.cur_item, self.cur_desc.clone()));
            self.slowest.sort_by(|a, b| b.0.cmp(&a.0));
            self.slowest.truncate(5);
        }
    }
    pub fn items_total(&self) -> u64 {
        self.item_counter
    }

    /// Deterministic library-facing RNG for the current item.
    pub fn rng(&self, label: &str) -> TraceRng {
        TraceRng::from_parts(&[
            b"fv",
            &self.seed.to_le_bytes(),
            self.prop.as_bytes(),
            self.suite.as_bytes(),
            &self.cur_item.to_le_bytes(),
            label.as_bytes(),
        ])
    }
    /// Deterministic harness-side chooser for the current item.
    pub fn pick(&self, label: &str) -> Pick {
        Pick::new(&[
            b"fv-pick",
            &self.seed.to_le_bytes(),
            self.prop.as_bytes(),
            self.suite.as_bytes(),
            &self.cur_item.to_le_bytes(),
            label.as_bytes(),
        ])
    }
    /// chooser that does not depend on the item (global per prop/suite/seed)
    pub fn pick_global(&self, label: &str) -> Pick {
        Pick::new(&[b"fv-gpick", &self.seed.to_le_bytes(), self.prop.as_bytes(), self.suite.as_bytes(), label.as_bytes()])
    }

    pub fn count(&mut self, k: &str) {
        *self.counts.entry(k.to_string()).or_insert(0) += 1;
    }
    pub fn add(&mut self, k: &str, n: u64) {
        *self.counts.entry(k.to_string()).or_insert(0) += n;
    }
    /// a coverage class that reached the deciding comparison
    pub fn class(&mut self, c: impl Into<String>) {
        self.classes.insert(c.into());
    }
    pub fn note(&mut self, k: &str, v: Value) {
        self.notes.insert(k.to_string(), v);
    }
    pub fn sample(&mut self, v: Value) {
        if self.samples.len() < self.max_samples {
            self.samples.push(json!({"item": self.cur_item, "desc": self.cur_desc, "case": v}));
        }
    }

    /// Record a refutation event. `monitor` names the oracle, `more` the failing class.
    pub fn viol(&mut self, monitor: &str, more: &str, detail: Value) {
        let sig = if more.is_empty() {
            format!("{}/{}/{}", self.prop, monitor, self.suite)
        } else {
            format!("{}/{}/{}/{}", self.prop, monitor, self.suite, more)
        };
        let n = self.viol_per_sig.entry(sig.clone()).or_insert(0);
        *n += 1;
        if *n <= 3 {
            self.viols.push(json!({
                "signature": sig,
                "property": self.prop,
                "suite": self.suite,
                "seed": self.seed,
                "tier": if self.quick() {"quick"} else {"thorough"},
                "item": self.cur_item,
                "desc": self.cur_desc,
                "prelude": self.notes.get("prelude_suite"),
                "profile": std::env::var("FV_PROFILE_NAME").ok(),
                "detail": detail,
            }));
        }
    }
    pub fn viol_count(&self) -> u64 {
        self.viol_per_sig.values().sum()
    }

    /// Run one item body; a panic of the code under test is itself a refutation event
    /// (honest inputs must never panic), recorded with the panic location.
    pub fn guard<F: FnOnce(&mut Ctx)>(&mut self, f: F) {
        let r = catch_unwind(AssertUnwindSafe(|| f(self)));
        if r.is_err() {
            let msg = LAST_PANIC.with(|p| p.borrow_mut().take()).unwrap_or_default();
            self.viol("panic", "", json!({"panic": msg}));
        }
    }

    /// append one JSON event for the offline checkers
    pub fn event(&mut self, v: Value) {
        if self.events.is_none() {
            let p = self.out_dir.join(format!("{}.events.jsonl", self.base()));
            self.events = Some(BufWriter::new(File::create(p).expect("event log")));
        }
        let w = self.events.as_mut().unwrap();
        serde_json::to_writer(&mut *w, &v).ok();
        w.write_all(b"\n").ok();
    }

    /// write-ahead record: what is about to be executed (overwrites the previous record)
    pub fn wal(&mut self, what: &str, data: &[u8]) {
        if self.wal.is_none() {
            let p = self.out_dir.join(format!("{}.wal", self.base()));
            self.wal = Some(File::create(p).expect("wal"));
        }
        let f = self.wal.as_mut().unwrap();
        let rec = format!("{} {} {} {}\n", self.cur_item, what, data.len(), hex::encode(data));
        f.seek(SeekFrom::Start(0)).ok();
        f.write_all(rec.as_bytes()).ok();
        f.set_len(rec.len() as u64).ok();
    }

    pub fn finish(mut self) -> i32 {
        self.close_item();
        let slow: Vec<Value> = self.slowest.iter().map(|(ms, k, d)| json!({"ms": ms, "item": k, "desc": d})).collect();
        self.notes.insert("slowest_items".into(), json!(slow));
        if let Some(mut w) = self.events.take() {
            w.flush().ok();
        }
        let out = json!({
            "prop": self.prop, "suite": self.suite, "shard": self.shard, "nshards": self.nshards,
            "seed": self.seed, "tier": if self.quick() {"quick"} else {"thorough"},
            "items_total": self.item_counter, "items_run": self.items_run,
            "counts": self.counts, "classes": self.classes, "violations": self.viols,
            "violation_count": self.viol_count(),
            "viol_per_sig": self.viol_per_sig,
            "samples": self.samples, "notes": self.notes,
        });
        let p = self.out_dir.join(format!("{}.json", self.base()));
        let tmp = self.out_dir.join(format!("{}.json.tmp", self.base()));
        std::fs::write(&tmp, serde_json::to_vec(&out).unwrap()).expect("write result");
        std::fs::rename(&tmp, &p).expect("rename result");
        if let Some(_f) = self.wal.take() {
            std::fs::remove_file(self.out_dir.join(format!("{}.wal", self.base()))).ok();
        }
        0
    }
}
