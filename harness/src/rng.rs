//! Recording / scripted random sources. Every byte the library pulls is an observable event.

use core::convert::Infallible;
use rand_chacha::ChaCha20Rng;
use rand_core::{Rng, SeedableRng, TryCryptoRng, TryRng};

#[derive(Clone)]
pub enum Src {
    ChaCha(Box<ChaCha20Rng>),
    /// every byte equal
    Constant(u8),
    /// repeats a fixed block forever
    Period(Vec<u8>, usize),
    /// 0,1,2,... byte counter (wraps)
    Counter(u64),
    /// replays a stream, then falls back to ChaCha
    Script(Vec<u8>, usize, Box<ChaCha20Rng>),
}

#[derive(Clone)]
pub struct TraceRng {
    src: Src,
    /// all bytes handed out, in order
    pub stream: Vec<u8>,
    /// length of each draw (one entry per call from the library)
    pub calls: Vec<usize>,
    /// XOR the bytes of draw number k with a fixed non-zero pattern
    pub perturb_call: Option<usize>,
    /// hand out all-zero bytes for draw number k (a draw that reduces to the zero scalar)
    pub zero_call: Option<usize>,
    /// XOR the bytes at these offsets of the consumed stream (independent of how the library chunks its requests)
    pub perturb_range: Option<(usize, usize)>,
    pub script_overrun: bool,
}

pub fn seed32(parts: &[&[u8]]) -> [u8; 32] {
    use sha2::{Digest, Sha256};
    let mut h = Sha256::new();
    for p in parts {
        h.update((p.len() as u64).to_le_bytes());
        h.update(p);
    }
    h.finalize().into()
}

impl TraceRng {
    pub fn new(src: Src) -> Self {
        TraceRng { src, stream: vec![], calls: vec![], perturb_call: None, zero_call: None, perturb_range: None, script_overrun: false }
    }
    pub fn chacha(seed: [u8; 32]) -> Self {
        Self::new(Src::ChaCha(Box::new(ChaCha20Rng::from_seed(seed))))
    }
    pub fn from_parts(parts: &[&[u8]]) -> Self {
        Self::chacha(seed32(parts))
    }
    pub fn constant(b: u8) -> Self {
        Self::new(Src::Constant(b))
    }
    pub fn period(block: Vec<u8>) -> Self {
        Self::new(Src::Period(block, 0))
    }
    pub fn counter(start: u64) -> Self {
        Self::new(Src::Counter(start))
    }
    pub fn script(stream: Vec<u8>) -> Self {
        let fb = ChaCha20Rng::from_seed(seed32(&[b"script-fallback", &stream]));
        Self::new(Src::Script(stream, 0, Box::new(fb)))
    }
    pub fn with_perturb(mut self, call: usize) -> Self {
        self.perturb_call = Some(call);
        self
    }
    /// 32 bytes from this generator, for deriving further independent streams
    pub fn stream_seed(mut self) -> [u8; 32] {
        let mut s = [0u8; 32];
        self.raw_fill(&mut s);
        s
    }
    pub fn n_calls(&self) -> usize {
        self.calls.len()
    }
    pub fn total(&self) -> usize {
        self.stream.len()
    }
    /// byte range of draw k in `stream`
    pub fn call_range(&self, k: usize) -> (usize, usize) {
        let start: usize = self.calls[..k].iter().sum();
        (start, start + self.calls[k])
    }
    /// fork a child generator for sub-purposes (does not record into self)
    pub fn child(&mut self, label: &[u8]) -> TraceRng {
        let mut s = [0u8; 32];
        self.raw_fill(&mut s);
        TraceRng::from_parts(&[label, &s])
    }

    fn raw_fill(&mut self, dst: &mut [u8]) {
        match &mut self.src {
            Src::ChaCha(r) => r.fill_bytes(dst),
            Src::Constant(b) => dst.fill(*b),
            Src::Period(block, pos) => {
                for d in dst.iter_mut() {
                    *d = block[*pos % block.len()];
                    *pos += 1;
                }
            }
            Src::Counter(c) => {
                for d in dst.iter_mut() {
                    *d = *c as u8;
                    *c = c.wrapping_add(1);
                }
            }
            Src::Script(s, pos, fb) => {
                for d in dst.iter_mut() {
                    if *pos < s.len() {
                        *d = s[*pos];
                        *pos += 1;
                    } else {
                        self.script_overrun = true;
                        let mut one = [0u8; 1];
                        fb.fill_bytes(&mut one);
                        *d = one[0];
                    }
                }
            }
        }
    }

    fn draw(&mut self, dst: &mut [u8]) {
        self.raw_fill(dst);
        if self.perturb_call == Some(self.calls.len()) {
            for (i, d) in dst.iter_mut().enumerate() {
                *d ^= 0x5a ^ (i as u8).wrapping_mul(37);
            }
        }
        if self.zero_call == Some(self.calls.len()) {
            dst.fill(0);
        }
        if let Some((a, b)) = self.perturb_range {
            let base = self.stream.len();
            for (i, d) in dst.iter_mut().enumerate() {
                if base + i >= a && base + i < b {
                    *d ^= 0x5a ^ ((base + i) as u8).wrapping_mul(37) | 1;
                }
            }
        }
        self.calls.push(dst.len());
        self.stream.extend_from_slice(dst);
    }
}

impl TryRng for TraceRng {
    type Error = Infallible;
    fn try_next_u32(&mut self) -> Result<u32, Infallible> {
        let mut b = [0u8; 4];
        self.draw(&mut b);
        Ok(u32::from_le_bytes(b))
    }
    fn try_next_u64(&mut self) -> Result<u64, Infallible> {
        let mut b = [0u8; 8];
        self.draw(&mut b);
        Ok(u64::from_le_bytes(b))
    }
    fn try_fill_bytes(&mut self, dst: &mut [u8]) -> Result<(), Infallible> {
        self.draw(dst);
        Ok(())
    }
}
impl TryCryptoRng for TraceRng {}

/// Small deterministic helper generator for harness-side choices (never handed to the library).
pub struct Pick(pub ChaCha20Rng);
impl Pick {
    pub fn new(parts: &[&[u8]]) -> Self {
        Pick(ChaCha20Rng::from_seed(seed32(parts)))
    }
    pub fn u64(&mut self) -> u64 {
        self.0.next_u64()
    }
    pub fn below(&mut self, n: usize) -> usize {
        if n == 0 { 0 } else { (self.0.next_u64() % n as u64) as usize }
    }
    pub fn bytes(&mut self, n: usize) -> Vec<u8> {
        let mut v = vec![0u8; n];
        self.0.fill_bytes(&mut v);
        v
    }
    pub fn coin(&mut self) -> bool {
        self.0.next_u32() & 1 == 1
    }
    pub fn shuffle<T>(&mut self, v: &mut [T]) {
        for i in (1..v.len()).rev() {
            let j = self.below(i + 1);
            v.swap(i, j);
        }
    }
    /// random k-subset of 0..n (sorted)
    pub fn subset(&mut self, n: usize, k: usize) -> Vec<usize> {
        let mut idx: Vec<usize> = (0..n).collect();
        self.shuffle(&mut idx);
        let mut s = idx[..k.min(n)].to_vec();
        s.sort();
        s
    }
}
