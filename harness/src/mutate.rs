//! (filled in by the C12/C14 work) structure-aware byte mutators.
