//! Seeded structure-aware mutators over valid encodings (binary and JSON).

use crate::rng::Pick;

pub const INTERESTING: [u8; 10] = [0x00, 0x01, 0x02, 0x03, 0x05, 0x7f, 0x80, 0xed, 0xfe, 0xff];

/// every single-bit flip
pub fn bitflips(b: &[u8]) -> Vec<Vec<u8>> {
    let mut out = Vec::with_capacity(b.len() * 8);
    for i in 0..b.len() * 8 {
        let mut v = b.to_vec();
        v[i / 8] ^= 1 << (i % 8);
        out.push(v);
    }
    out
}

/// every single-byte substitution at the given positions (255 alternatives each)
pub fn byte_subs(b: &[u8], positions: &[usize]) -> Vec<Vec<u8>> {
    let mut out = vec![];
    for &p in positions {
        if p >= b.len() {
            continue;
        }
        for x in 0..=255u8 {
            if x != b[p] {
                let mut v = b.to_vec();
                v[p] = x;
                out.push(v);
            }
        }
    }
    out
}

pub fn truncations(b: &[u8]) -> Vec<Vec<u8>> {
    (0..b.len()).map(|l| b[..l].to_vec()).collect()
}

pub fn varint(mut v: u128) -> Vec<u8> {
    let mut out = vec![];
    loop {
        let byte = (v & 0x7f) as u8;
        v >>= 7;
        if v == 0 {
            out.push(byte);
            return out;
        }
        out.push(byte | 0x80);
    }
}

/// one random structure-aware mutation
pub fn mutate(b: &[u8], p: &mut Pick, corpus: &[Vec<u8>]) -> Vec<u8> {
    let mut v = b.to_vec();
    let rounds = 1 + p.below(3);
    for _ in 0..rounds {
        let op = p.below(14);
        let len = v.len();
        match op {
            0 if len > 0 => {
                let i = p.below(len * 8);
                v[i / 8] ^= 1 << (i % 8);
            }
            1 if len > 0 => {
                let i = p.below(len);
                v[i] = INTERESTING[p.below(INTERESTING.len())];
            }
            2 if len > 0 => {
                let i = p.below(len);
                v[i] = p.u64() as u8;
            }
            3 if len > 0 => {
                v.truncate(p.below(len));
            }
            4 => {
                let n = 1 + p.below(40);
                v.extend(p.bytes(n));
            }
            5 if len > 1 => {
                // delete a chunk
                let a = p.below(len);
                let n = 1 + p.below((len - a).min(40));
                v.drain(a..a + n);
            }
            6 if len > 1 => {
                // duplicate a chunk
                let a = p.below(len);
                let n = 1 + p.below((len - a).min(70));
                let chunk = v[a..a + n].to_vec();
                let at = p.below(len);
                v.splice(at..at, chunk);
            }
            7 if !corpus.is_empty() && len > 0 => {
                // splice with another corpus entry (possibly another type / another ciphersuite)
                let o = &corpus[p.below(corpus.len())];
                if !o.is_empty() {
                    let a = p.below(len);
                    let c = p.below(o.len());
                    v.truncate(a);
                    v.extend_from_slice(&o[c..]);
                }
            }
            8 if len > 0 => {
                // length / count inflation: overwrite a byte near the front (where postcard keeps
                // map and vector lengths) with a large varint
                let big: [u128; 7] = [0x7f, 0x80, 0x3fff, 0xffff, 0x1_0000, 0xffff_ffff, u64::MAX as u128];
                let pos = if p.coin() { p.below(len.min(12)) } else { p.below(len) };
                let vi = varint(big[p.below(big.len())]);
                v.splice(pos..pos + 1, vi);
            }
            9 if len > 0 => {
                // fill a window with one byte
                let a = p.below(len);
                let n = 1 + p.below((len - a).min(64));
                let x = INTERESTING[p.below(INTERESTING.len())];
                for y in &mut v[a..a + n] {
                    *y = x;
                }
            }
            10 if len > 4 => {
                // swap two windows
                let n = 1 + p.below(len / 2);
                let a = p.below(len - n + 1);
                let c = p.below(len - n + 1);
                for k in 0..n {
                    v.swap(a + k, c + k);
                }
            }
            11 => {
                let n = p.below(4097);
                v = p.bytes(n);
            }
            12 if len > 0 => {
                // arithmetic on a byte
                let i = p.below(len);
                v[i] = v[i].wrapping_add(if p.coin() { 1 } else { 0xff });
            }
            _ => {
                if len > 0 {
                    let i = p.below(len.min(6));
                    v[i] = p.u64() as u8;
                }
            }
        }
    }
    v
}

/// JSON mutations at the value level and at the text level
pub fn mutate_json(s: &str, p: &mut Pick) -> String {
    use serde_json::Value;
    let op = p.below(12);
    if op < 8 {
        if let Ok(mut v) = serde_json::from_str::<Value>(s) {
            let mut paths = vec![];
            collect_paths(&v, vec![], &mut paths);
            if !paths.is_empty() {
                let path = paths[p.below(paths.len())].clone();
                if let Some(slot) = get_mut(&mut v, &path) {
                    match op {
                        0 => *slot = Value::Null,
                        1 => *slot = Value::from(p.u64()),
                        2 => *slot = Value::String(String::new()),
                        3 => {
                            // odd-length / non-hex / upper-case / too long hex
                            if let Value::String(h) = slot {
                                match p.below(6) {
                                    0 => {
                                        h.pop();
                                    }
                                    1 => h.push('g'),
                                    2 => *h = h.to_uppercase(),
                                    3 => h.push_str("00"),
                                    4 => *h = "ff".repeat(h.len() / 2),
                                    _ => *h = "00".repeat(h.len() / 2),
                                }
                            } else {
                                *slot = Value::String("zz".into());
                            }
                        }
                        4 => *slot = Value::Array(vec![slot.clone(), slot.clone()]),
                        5 => {
                            let mut m = serde_json::Map::new();
                            m.insert("x".into(), slot.clone());
                            *slot = Value::Object(m);
                        }
                        6 => *slot = serde_json::json!(-1),
                        _ => *slot = serde_json::json!(1.5e300),
                    }
                }
                if op == 7 {
                    if let Value::Object(m) = &mut v {
                        m.insert("unexpected_field".into(), Value::from(1));
                    }
                }
                return v.to_string();
            }
        }
    }
    let bytes = s.as_bytes();
    match op {
        8 => {
            // duplicate a key: repeat the first member
            if let Some(pos) = s.find(',') {
                let first = &s[1..pos];
                return format!("{{{first},{}", &s[1..]);
            }
            s.to_string()
        }
        9 => {
            let depth = [10usize, 200, 5000][p.below(3)];
            format!("{}{}{}", "[".repeat(depth), s, "]".repeat(depth))
        }
        10 => {
            let l = p.below(bytes.len().max(1));
            String::from_utf8_lossy(&bytes[..l]).to_string()
        }
        _ => {
            let mut v = bytes.to_vec();
            if !v.is_empty() {
                let i = p.below(v.len());
                v[i] = b"\"{}[]:,0a\\ "[p.below(11)];
            }
            String::from_utf8_lossy(&v).to_string()
        }
    }
}

fn collect_paths(v: &serde_json::Value, cur: Vec<String>, out: &mut Vec<Vec<String>>) {
    match v {
        serde_json::Value::Object(m) => {
            for (k, x) in m {
                let mut c = cur.clone();
                c.push(k.clone());
                out.push(c.clone());
                collect_paths(x, c, out);
            }
        }
        serde_json::Value::Array(a) => {
            for (i, x) in a.iter().enumerate() {
                let mut c = cur.clone();
                c.push(i.to_string());
                out.push(c.clone());
                collect_paths(x, c, out);
            }
        }
        _ => {}
    }
}

fn get_mut<'a>(v: &'a mut serde_json::Value, path: &[String]) -> Option<&'a mut serde_json::Value> {
    let mut cur = v;
    for k in path {
        cur = match cur {
            serde_json::Value::Object(m) => m.get_mut(k)?,
            serde_json::Value::Array(a) => a.get_mut(k.parse::<usize>().ok()?)?,
            _ => return None,
        };
    }
    Some(cur)
}
