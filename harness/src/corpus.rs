//! Real values of every wire type, taken from honest protocol runs (dealer, DKG, refresh, repair,
//! signing, re-randomisation). Used by C12 (round trips / decoders) and C14 (mutation seeds).

use std::collections::BTreeMap;

use frost_core::keys::dkg::{round1 as d1, round2 as d2};
use frost_core::keys::repairable::{self, Delta, Sigma};
use frost_core::keys::{
    CoefficientCommitment, KeyPackage, PublicKeyPackage, SecretShare, SigningShare, VerifiableSecretSharingCommitment,
    VerifyingShare, refresh,
};
use frost_core::round1::{Nonce, NonceCommitment, SigningCommitments, SigningNonces};
use frost_core::round2::SignatureShare;
use frost_core::{Identifier, Signature, SigningKey, SigningPackage, VerifyingKey};
use frost_rerandomized::{RandomizedParams, Randomizer};

use crate::alg::*;
use crate::gen_::identifiers;
use crate::proto::*;
use crate::rng::{Pick, TraceRng};
use crate::suite::Suite;

pub struct Corpus<C: Suite> {
    pub identifier: Vec<Identifier<C>>,
    pub signing_key: Vec<SigningKey<C>>,
    pub verifying_key: Vec<VerifyingKey<C>>,
    pub signing_share: Vec<SigningShare<C>>,
    pub verifying_share: Vec<VerifyingShare<C>>,
    pub signature: Vec<Signature<C>>,
    pub signature_share: Vec<SignatureShare<C>>,
    pub nonce: Vec<Nonce<C>>,
    pub nonce_commitment: Vec<NonceCommitment<C>>,
    pub coefficient_commitment: Vec<CoefficientCommitment<C>>,
    pub delta: Vec<Delta<C>>,
    pub sigma: Vec<Sigma<C>>,
    pub randomizer: Vec<Randomizer<C>>,
    pub signing_nonces: Vec<SigningNonces<C>>,
    pub signing_commitments: Vec<SigningCommitments<C>>,
    pub signing_package: Vec<SigningPackage<C>>,
    pub vss_commitment: Vec<VerifiableSecretSharingCommitment<C>>,
    pub secret_share: Vec<SecretShare<C>>,
    pub key_package: Vec<KeyPackage<C>>,
    pub public_key_package: Vec<PublicKeyPackage<C>>,
    pub dkg_r1_package: Vec<d1::Package<C>>,
    pub dkg_r1_secret: Vec<d1::SecretPackage<C>>,
    pub dkg_r2_package: Vec<d2::Package<C>>,
    pub dkg_r2_secret: Vec<d2::SecretPackage<C>>,
}

impl<C: Suite> Default for Corpus<C> {
    fn default() -> Self {
        Corpus {
            identifier: vec![],
            signing_key: vec![],
            verifying_key: vec![],
            signing_share: vec![],
            verifying_share: vec![],
            signature: vec![],
            signature_share: vec![],
            nonce: vec![],
            nonce_commitment: vec![],
            coefficient_commitment: vec![],
            delta: vec![],
            sigma: vec![],
            randomizer: vec![],
            signing_nonces: vec![],
            signing_commitments: vec![],
            signing_package: vec![],
            vss_commitment: vec![],
            secret_share: vec![],
            key_package: vec![],
            public_key_package: vec![],
            dkg_r1_package: vec![],
            dkg_r1_secret: vec![],
            dkg_r2_package: vec![],
            dkg_r2_secret: vec![],
        }
    }
}

/// Apply a generic function to the value list of every wire type.
#[macro_export]
macro_rules! each_wire_type {
    ($c:expr, $f:ident $(, $arg:expr)*) => {{
        $f::<C, _>(&$c.identifier $(, $arg)*);
        $f::<C, _>(&$c.signing_key $(, $arg)*);
        $f::<C, _>(&$c.verifying_key $(, $arg)*);
        $f::<C, _>(&$c.signing_share $(, $arg)*);
        $f::<C, _>(&$c.verifying_share $(, $arg)*);
        $f::<C, _>(&$c.signature $(, $arg)*);
        $f::<C, _>(&$c.signature_share $(, $arg)*);
        $f::<C, _>(&$c.nonce $(, $arg)*);
        $f::<C, _>(&$c.nonce_commitment $(, $arg)*);
        $f::<C, _>(&$c.coefficient_commitment $(, $arg)*);
        $f::<C, _>(&$c.delta $(, $arg)*);
        $f::<C, _>(&$c.sigma $(, $arg)*);
        $f::<C, _>(&$c.randomizer $(, $arg)*);
        $f::<C, _>(&$c.signing_nonces $(, $arg)*);
        $f::<C, _>(&$c.signing_commitments $(, $arg)*);
        $f::<C, _>(&$c.signing_package $(, $arg)*);
        $f::<C, _>(&$c.vss_commitment $(, $arg)*);
        $f::<C, _>(&$c.secret_share $(, $arg)*);
        $f::<C, _>(&$c.key_package $(, $arg)*);
        $f::<C, _>(&$c.public_key_package $(, $arg)*);
        $f::<C, _>(&$c.dkg_r1_package $(, $arg)*);
        $f::<C, _>(&$c.dkg_r1_secret $(, $arg)*);
        $f::<C, _>(&$c.dkg_r2_package $(, $arg)*);
        $f::<C, _>(&$c.dkg_r2_secret $(, $arg)*);
    }};
}

/// One batch of protocol runs; `n`, `t`, identifier kind chosen by the caller.
pub fn harvest<C: Suite>(co: &mut Corpus<C>, n: u16, t: u16, kind: &str, rng: &mut TraceRng, p: &mut Pick) -> Result<(), String> {
    let ids = identifiers::<C>(kind, n as usize, p);
    let idl = if kind == "default" { None } else { Some(&ids[..]) };
    let grp = dealer_group::<C>(n, t, idl, None, rng).map_err(|e| format!("{e:?}"))?;
    co.identifier.extend(grp.ids.iter().copied());
    let key = SigningKey::<C>::new(rng);
    co.verifying_key.push(VerifyingKey::<C>::from(&key));
    co.verifying_key.push(*grp.pkp.verifying_key());
    co.signing_key.push(key.clone());
    co.signing_key.push(SigningKey::<C>::from_scalar(one::<C>()).unwrap());
    co.signing_key.push(SigningKey::<C>::from_scalar(neg::<C>(one::<C>())).unwrap());
    for (id, sh) in &grp.shares {
        co.secret_share.push(sh.clone());
        co.signing_share.push(*sh.signing_share());
        co.key_package.push(grp.kps[id].clone());
        co.verifying_share.push(*grp.kps[id].verifying_share());
    }
    co.signing_share.push(SigningShare::<C>::new(zero::<C>()));
    co.vss_commitment.push(grp.shares.values().next().unwrap().commitment().clone());
    co.coefficient_commitment.extend(grp.shares.values().next().unwrap().commitment().coefficients().iter().copied());
    co.public_key_package.push(grp.pkp.clone());
    // the pre-3.0 form of a public key package (no threshold)
    co.public_key_package.push(PublicKeyPackage::new(grp.pkp.verifying_shares().clone(), *grp.pkp.verifying_key(), None));
    // signing
    let signers: Vec<_> = grp.ids.iter().take(t as usize).copied().collect();
    let mlen = p.below(100);
    let msg = p.bytes(mlen);
    let sess = sign_session(&grp, &signers, &msg, rng).map_err(|e| format!("{:?}", e.1))?;
    for id in &signers {
        co.signing_nonces.push(sess.nonces[id].clone());
        co.nonce.push(*sess.nonces[id].hiding());
        co.nonce.push(*sess.nonces[id].binding());
        co.signing_commitments.push(sess.comms[id]);
        co.nonce_commitment.push(*sess.comms[id].hiding());
        co.nonce_commitment.push(*sess.comms[id].binding());
        co.signature_share.push(sess.shares[id]);
    }
    co.signing_package.push(sess.pkg.clone());
    co.signing_package.push(SigningPackage::new(sess.comms.clone(), &[]));
    let sig = C::api_aggregate(&sess.pkg, &sess.shares, &grp.pkp).map_err(|e| format!("{e:?}"))?;
    co.signature.push(sig);
    co.signature.push(key.sign(&mut *rng, &msg));
    // re-randomisation
    if let Ok((params, _seed)) = RandomizedParams::<C>::new_from_commitments(grp.pkp.verifying_key(), &sess.comms, &mut *rng) {
        co.randomizer.push(*params.randomizer());
        co.verifying_key.push(*params.randomized_verifying_key());
    }
    co.randomizer.push(Randomizer::<C>::from_scalar(zero::<C>()));
    // DKG
    if n <= 5 {
        let run = dkg_rounds::<C>(n, t, &ids, rng).map_err(|e| format!("{e:?}"))?;
        for id in &ids {
            co.dkg_r1_package.push(run.r1_pkgs[id].clone());
            co.dkg_r1_secret.push(run.r1_secret[id].clone());
            co.dkg_r2_secret.push(run.r2_secret[id].clone());
            co.signature.push(*run.r1_pkgs[id].proof_of_knowledge());
            for pk in run.r2_pkgs[id].values() {
                co.dkg_r2_package.push(pk.clone());
            }
        }
        // distributed refresh: stored commitments lack their identity entry
        let mut s1 = BTreeMap::new();
        let mut q1 = BTreeMap::new();
        for id in &grp.ids {
            let (s, pk) = C::api_refresh_dkg_part1(*id, n, t, &mut *rng).map_err(|e| format!("{e:?}"))?;
            co.dkg_r1_secret.push(s.clone());
            co.dkg_r1_package.push(pk.clone());
            s1.insert(*id, s);
            q1.insert(*id, pk);
        }
        let me = grp.ids[0];
        let mut ib = q1.clone();
        ib.remove(&me);
        let (s2, out) = C::api_refresh_dkg_part2(s1[&me].clone(), &ib).map_err(|e| format!("{e:?}"))?;
        co.dkg_r2_secret.push(s2);
        co.dkg_r2_package.extend(out.values().cloned());
    }
    // dealer refresh: refreshing shares carry a stripped commitment
    if let Ok((rs, np)) = C::api_compute_refreshing_shares(grp.pkp.clone(), &grp.ids, rng) {
        co.vss_commitment.push(rs[0].commitment().clone());
        co.secret_share.extend(rs);
        co.public_key_package.push(np);
    }
    // repair
    if n > t {
        let helpers: Vec<_> = grp.ids[1..].to_vec();
        if let Ok(deltas) = C::api_repair_part1(&helpers, &grp.kps[&helpers[0]], rng, grp.ids[0]) {
            let ds: Vec<Delta<C>> = deltas.values().copied().collect();
            co.sigma.push(C::api_repair_part2(&ds));
            co.delta.extend(ds);
        }
    }
    co.delta.push(Delta::<C>::new(zero::<C>()));
    co.sigma.push(Sigma::<C>::new(neg::<C>(one::<C>())));
    Ok(())
}
