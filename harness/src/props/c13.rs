//! C13 — protocol state saved between rounds resumes to the identical outcome.
//!
//! Every participant's local run is re-executed with its state encoded (binary / JSON), dropped and
//! decoded at every subset of its round boundaries; every later output must be byte-identical to the
//! uninterrupted execution with the same random stream.

use std::collections::BTreeMap;

use frost_core::keys::dkg;
use frost_core::keys::repairable::{self, Delta, Sigma};
use frost_core::keys::{KeyPackage, PublicKeyPackage, SecretShare, refresh};
use frost_core::round1::SigningCommitments;
use frost_core::round2::SignatureShare;
use frost_core::{Identifier, SigningPackage};
use serde_json::json;

use crate::alg::*;
use crate::gen_::*;
use crate::proto::*;
use crate::rng::TraceRng;
use crate::wire::{Store, Wire, persist};
use crate::{Ctx, Suite};

type Trace = Vec<(String, Vec<u8>)>;

fn pm<C: Suite, T: Wire<C>>(m: &IdMap<C, T>, how: Store) -> Result<IdMap<C, T>, String> {
    let mut out = BTreeMap::new();
    for (k, v) in m {
        let k2 = persist::<C, Identifier<C>>(*k, how).map_err(|e| format!("map key: {e}"))?;
        out.insert(k2, persist::<C, T>(v.clone(), how).map_err(|e| format!("{}: {e}", T::NAME))?);
    }
    Ok(out)
}
fn p1<C: Suite, T: Wire<C>>(x: T, how: Store) -> Result<T, String> {
    persist::<C, T>(x, how).map_err(|e| format!("{}: {e}", T::NAME))
}
fn push<C: Suite, T: Wire<C>>(tr: &mut Trace, label: &str, x: &T) {
    tr.push((label.to_string(), x.enc().unwrap_or_else(|e| format!("<unencodable {e}>").into_bytes())));
}
fn e<E: core::fmt::Debug>(step: &str) -> impl Fn(E) -> String + '_ {
    move |x| format!("{step}: {x:?}")
}

/// Real restart: this process saves a participant's state to a file; *another process with another history* (the
/// driver starts it with the opposite `--prelude` setting) decodes it and continues. Everything it then produces must
/// equal what the saving process computed from its in-memory state.
fn xproc_scenario<C: Suite>(seed: u64) -> Option<(BTreeMap<String, (Vec<u8>, String)>, BTreeMap<String, Vec<u8>>)> {
    let mut rng = TraceRng::from_parts(&[b"c13-xproc", &seed.to_le_bytes(), C::NAME.as_bytes()]);
    let mut st: BTreeMap<String, (Vec<u8>, String)> = BTreeMap::new();
    let mut ex: BTreeMap<String, Vec<u8>> = BTreeMap::new();
    fn put<C: Suite, T: Wire<C>>(st: &mut BTreeMap<String, (Vec<u8>, String)>, k: &str, v: &T) -> Option<()> {
        st.insert(k.to_string(), (v.enc().ok()?, v.to_json().ok()?));
        Some(())
    }
    let g = dealer_group::<C>(3, 2, None, None, &mut rng).ok()?;
    let (me, other) = (g.ids[0], g.ids[2]);
    let sess = sign_session(&g, &[me, other], b"resume me elsewhere", &mut rng).ok()?;
    put::<C, _>(&mut st, "key_package", &g.kps[&me])?;
    put::<C, _>(&mut st, "public_key_package", &g.pkp)?;
    put::<C, _>(&mut st, "secret_share", &g.shares[&me])?;
    put::<C, _>(&mut st, "signing_nonces", &sess.nonces[&me])?;
    put::<C, _>(&mut st, "signing_package", &sess.pkg)?;
    put::<C, _>(&mut st, "share_of_other", &sess.shares[&other])?;
    put::<C, _>(&mut st, "identifier_me", &me)?;
    put::<C, _>(&mut st, "identifier_other", &other)?;
    ex.insert("signature_share".into(), sess.shares[&me].enc().ok()?);
    ex.insert("signature".into(), C::api_aggregate(&sess.pkg, &sess.shares, &g.pkp).ok()?.enc().ok()?);
    ex.insert("key_package".into(), g.kps[&me].enc().ok()?);
    let ids = [me, other];
    let run = dkg_rounds::<C>(2, 2, &ids, &mut rng).ok()?;
    put::<C, _>(&mut st, "dkg_round1_secret", &run.r1_secret[&me])?;
    put::<C, _>(&mut st, "dkg_round2_secret", &run.r2_secret[&me])?;
    put::<C, _>(&mut st, "dkg_round1_package_of_other", &run.r1_pkgs[&other])?;
    put::<C, _>(&mut st, "dkg_round2_package_for_me", &run.r2_pkgs[&other][&me])?;
    ex.insert("dkg_round2_package_for_other".into(), run.r2_pkgs[&me][&other].enc().ok()?);
    let (r1, r2) = dkg_inbox(&run, &me);
    let (kp, pkp) = C::api_dkg_part3(&run.r2_secret[&me], &r1, &r2).ok()?;
    ex.insert("dkg_key_package".into(), kp.enc().ok()?);
    ex.insert("dkg_public_key_package".into(), pkp.enc().ok()?);
    Some((st, ex))
}

fn xproc_save<C: Suite>(ctx: &mut Ctx) {
    let Some((st, ex)) = xproc_scenario::<C>(ctx.seed) else { return ctx.viol("honest-run-failed", "cross-process", json!({})) };
    let file = ctx.out_dir.join(format!("C13.xproc.{}.{}.json", C::NAME, ctx.shard));
    let v = json!({"suite": C::NAME, "seed": ctx.seed, "saver_prelude": ctx.notes.get("prelude_suite"), "saver_profile": std::env::var("FV_PROFILE_NAME").ok(),
        "states": st.iter().map(|(k, (b, j))| (k.clone(), json!({"bin": hex::encode(b), "json": j}))).collect::<serde_json::Map<_, _>>(),
        "expected": ex.iter().map(|(k, b)| (k.clone(), json!(hex::encode(b)))).collect::<serde_json::Map<_, _>>()});
    std::fs::write(file, serde_json::to_vec(&v).unwrap()).ok();
    ctx.count("cross_process_states_saved");
}

pub fn xproc_resume<C: Suite>(ctx: &mut Ctx, file: &str) {
    let Ok(txt) = std::fs::read_to_string(file) else { return };
    let Ok(v) = serde_json::from_str::<serde_json::Value>(&txt) else { return };
    ctx.item(&format!("cross-process resume of {file}"));
    let here = ctx.notes.get("prelude_suite").cloned();
    for how in ["bin", "json"] {
        let d = |what: &str, extra: serde_json::Value| json!({"what": what, "encoding": how, "saved_by_process_with_prelude": v["saver_prelude"], "resumed_in_process_with_prelude": here, "saver_profile": v["saver_profile"], "resumer_profile": std::env::var("FV_PROFILE_NAME").ok(), "extra": extra});
        macro_rules! get {
            ($k:expr, $t:ty) => {{
                let e = &v["states"][$k];
                let r = if how == "bin" { hex::decode(e["bin"].as_str().unwrap_or("")).map_err(|x| x.to_string()).and_then(|b| <$t as Wire<C>>::dec(&b)) } else { <$t as Wire<C>>::from_json(e["json"].as_str().unwrap_or("")) };
                match r {
                    Ok(x) => x,
                    Err(err) => {
                        ctx.viol("cross-process-resume-failed", &format!("decode/{}", $k), d("state saved by another process does not decode", json!({"err": err})));
                        continue;
                    }
                }
            }};
        }
        let want = |k: &str| hex::decode(v["expected"][k].as_str().unwrap_or("")).unwrap_or_default();
        let kp = get!("key_package", frost_core::keys::KeyPackage<C>);
        let pkp = get!("public_key_package", frost_core::keys::PublicKeyPackage<C>);
        let ss = get!("secret_share", frost_core::keys::SecretShare<C>);
        let nonces = get!("signing_nonces", frost_core::round1::SigningNonces<C>);
        let pkg = get!("signing_package", frost_core::SigningPackage<C>);
        let so = get!("share_of_other", frost_core::round2::SignatureShare<C>);
        let me = get!("identifier_me", frost_core::Identifier<C>);
        let other = get!("identifier_other", frost_core::Identifier<C>);
        let s1 = get!("dkg_round1_secret", dkg::round1::SecretPackage<C>);
        let s2 = get!("dkg_round2_secret", dkg::round2::SecretPackage<C>);
        let p1 = get!("dkg_round1_package_of_other", dkg::round1::Package<C>);
        let p2 = get!("dkg_round2_package_for_me", dkg::round2::Package<C>);
        let mut outs: Vec<(&str, Result<Vec<u8>, String>)> = vec![];
        outs.push(("key_package", KeyPackage::<C>::try_from(ss).map_err(|e| format!("{e:?}")).and_then(|k| k.enc())));
        let sh = C::api_sign(&pkg, &nonces, &kp);
        outs.push(("signature_share", sh.clone().map_err(|e| format!("{e:?}")).and_then(|s| s.enc())));
        if let Ok(sh) = sh {
            let m: IdMap<C, SignatureShare<C>> = [(me, sh), (other, so)].into_iter().collect();
            outs.push(("signature", C::api_aggregate(&pkg, &m, &pkp).map_err(|e| format!("{e:?}")).and_then(|s| s.enc())));
        }
        let r1: IdMap<C, dkg::round1::Package<C>> = [(other, p1)].into_iter().collect();
        let r2: IdMap<C, dkg::round2::Package<C>> = [(other, p2)].into_iter().collect();
        outs.push(("dkg_round2_package_for_other", C::api_dkg_part2(s1, &r1).map_err(|e| format!("{e:?}")).and_then(|(_, o)| o[&other].enc())));
        match C::api_dkg_part3(&s2, &r1, &r2) {
            Ok((k, p)) => {
                outs.push(("dkg_key_package", k.enc()));
                outs.push(("dkg_public_key_package", p.enc()));
            }
            Err(e) => outs.push(("dkg_key_package", Err(format!("{e:?}")))),
        }
        for (k, r) in outs {
            ctx.count("cross_process_outputs_compared");
            match r {
                Ok(b) if b == want(k) => {}
                Ok(b) => ctx.viol("cross-process-output-differs", k, d("output of the resumed process differs from the saving process", json!({"got": hex::encode(&b), "want": hex::encode(want(k))}))),
                Err(e) => ctx.viol("cross-process-resume-failed", k, d("a step failed in the resumed process", json!({"err": e}))),
            }
        }
        ctx.class(format!("cross-process/{how}/saver={}/resumer={}", v["saver_prelude"].as_str().unwrap_or("none"), here.as_ref().and_then(|x| x.as_str()).unwrap_or("none")));
    }
    ctx.count("cross_process_resumes");
}

pub fn run<C: Suite>(ctx: &mut Ctx) {
    // two adjacent items, so that one lands in a process that used another ciphersuite first and one in a plain process
    for k in 0..2 {
        if ctx.item(&format!("cross-process save #{k}")) {
            ctx.guard(|ctx| xproc_save::<C>(ctx));
        }
    }
    let slow = C::NAME == "ed448";
    let shapes_v: Vec<(u16, u16)> = match (ctx.quick(), slow) {
        (true, true) => vec![(2, 2), (3, 2)],
        (true, false) => vec![(2, 2), (3, 2), (3, 3), (4, 3)],
        (false, true) => shapes(4),
        (false, false) => shapes(6),
    };
    // large thresholds: encodings grow with t (buffers, multi-byte length prefixes); few persistence patterns, two participants
    let fastc = matches!(C::NAME, "ed25519" | "ristretto255" | "secp256k1" | "secp256k1-tr");
    let large: Vec<(u16, u16)> = match (ctx.quick(), fastc) {
        (true, true) => vec![(17, 16)],
        (true, false) => vec![(10, 9)],
        (false, true) => vec![(17, 16), (33, 32), (130, 129)],
        (false, false) => vec![(10, 9), (17, 16), (33, 32)],
    };
    for (n, t) in large {
        for proto in ["dkg", "refresh-dkg", "dealer", "refresh-dealer"] {
            if !ctx.item(&format!("{proto} LARGE n={n} t={t}")) {
                continue;
            }
            ctx.note("large", json!(true));
            ctx.guard(|ctx| item::<C>(ctx, proto, n, t, "default"));
            ctx.notes.remove("large");
        }
    }
    for (n, t) in shapes_v {
        for proto in ["dkg", "refresh-dkg", "dealer", "refresh-dealer", "repair", "coordinator"] {
            // big-scalar: identifiers such as -1, -2, 2^128+1 - state whose scalars sit at the top of the range
            for kind in ["default", "derived", "big-scalar"] {
                if ctx.quick() && kind != "default" && !(n == 3 && t == 2) {
                    continue;
                }
                if proto == "repair" && n <= t {
                    continue;
                }
                if !ctx.item(&format!("{proto} n={n} t={t} ids={kind}")) {
                    continue;
                }
                ctx.guard(|ctx| item::<C>(ctx, proto, n, t, kind));
            }
        }
    }
}

/// the store combinations tried for `nb` boundaries
fn combos(ctx: &Ctx, nb: usize, p: &mut crate::rng::Pick) -> Vec<Vec<Store>> {
    let mut out = vec![];
    if ctx.notes.contains_key("large") {
        return vec![vec![Store::Bin; nb], vec![Store::Json; nb], vec![Store::Parts; nb], (0..nb).map(|b| if b % 2 == 0 { Store::Bin } else { Store::Json }).collect()];
    }
    for how in [Store::Bin, Store::Json, Store::Parts] {
        for mask in 1u32..(1 << nb) {
            out.push((0..nb).map(|b| if mask >> b & 1 == 1 { how } else { Store::Mem }).collect());
        }
    }
    for _ in 0..ctx.scale(6, 40) {
        out.push((0..nb).map(|_| [Store::Mem, Store::Bin, Store::Json, Store::Parts][p.below(4)]).collect());
    }
    out
}

fn compare<C: Suite>(ctx: &mut Ctx, proto: &str, who: &str, stores: &[Store], base: &Trace, got: Result<Trace, String>, n: u16, t: u16) {
    let d = |what: &str, extra: serde_json::Value| json!({"what": what, "protocol": proto, "participant": who, "n": n, "t": t, "stores": format!("{stores:?}"), "extra": extra});
    ctx.count("resumed_runs");
    let cls: Vec<&str> = stores.iter().map(|s| match s { Store::Mem => "m", Store::Bin => "b", Store::Json => "j", Store::Parts => "p" }).collect();
    ctx.class(format!("{proto}/n={n}/t={t}/{}", cls.join("")));
    match got {
        Err(err) => {
            let step = err.split(':').next().unwrap_or("?").to_string();
            ctx.viol("resume-step-failed", &format!("{proto}/{step}"), d("a step failed after state was restored", json!({"err": err})));
        }
        Ok(tr) => {
            if tr.len() != base.len() {
                ctx.viol("resumed-output-differs", &format!("{proto}/length"), d("different number of outputs", json!({})));
                return;
            }
            for ((la, a), (_, b)) in base.iter().zip(tr.iter()) {
                ctx.count("outputs_compared");
                if a != b {
                    ctx.viol("resumed-output-differs", &format!("{proto}/{}", la.split('#').next().unwrap()), d("output differs from the uninterrupted execution", json!({"output": la, "want": hex::encode(a), "got": hex::encode(b)})));
                    return;
                }
            }
        }
    }
}

fn item<C: Suite>(ctx: &mut Ctx, proto: &str, n: u16, t: u16, kind: &str) {
    let mut p = ctx.pick("choices");
    let ids0 = identifiers::<C>(kind, n as usize, &mut p);
    let mut ids = ids0.clone();
    sort_ids_numeric::<C>(&mut ids);
    let msg = p.bytes(33);
    let seed = ctx.rng("base").stream_seed();
    let prng = |label: &str, id: &Identifier<C>| TraceRng::from_parts(&[b"c13", &seed, label.as_bytes(), &id.serialize()]);
    let signers: Vec<Identifier<C>> = ids.iter().take(t as usize).copied().collect();

    match proto {
        "dkg" | "refresh-dkg" => {
            let refreshing = proto == "refresh-dkg";
            // the group being refreshed (for refresh) — dealer made
            let old = if refreshing {
                match dealer_group::<C>(n, t, if kind == "default" { None } else { Some(&ids0[..]) }, None, &mut prng("old", &ids[0])) {
                    Ok(g) => Some(g),
                    Err(_) => return,
                }
            } else {
                None
            };
            // uninterrupted run of everybody (each participant owns a random stream)
            let mut rngs: IdMap<C, TraceRng> = ids.iter().map(|i| (*i, prng("participant", i))).collect();
            let mut sec1 = BTreeMap::new();
            let mut r1 = BTreeMap::new();
            for id in &ids {
                let r = if refreshing { C::api_refresh_dkg_part1(*id, n, t, rngs.get_mut(id).unwrap()) } else { C::api_dkg_part1(*id, n, t, rngs.get_mut(id).unwrap()) };
                let Ok((s, pk)) = r else { return ctx.viol("honest-run-failed", proto, json!({"step": "part1"})) };
                sec1.insert(*id, s);
                r1.insert(*id, pk);
            }
            let mut r2: IdMap<C, IdMap<C, dkg::round2::Package<C>>> = BTreeMap::new();
            for id in &ids {
                let mut ib = r1.clone();
                ib.remove(id);
                let r = if refreshing { C::api_refresh_dkg_part2(sec1[id].clone(), &ib) } else { C::api_dkg_part2(sec1[id].clone(), &ib) };
                let Ok((_, out)) = r else { return ctx.viol("honest-run-failed", proto, json!({"step": "part2"})) };
                r2.insert(*id, out);
            }
            // signing commitments of the signer set come from each signer's own stream after keygen
            let run_participant = |me: &Identifier<C>, st: &[Store], comms: Option<&IdMap<C, SigningCommitments<C>>>| -> Result<(Trace, SigningCommitments<C>), String> {
                let mut tr: Trace = vec![];
                let mut rng = prng("participant", me);
                let (okp, opkp) = match &old {
                    Some(g) => (Some(p1::<C, _>(g.kps[me].clone(), st[0])?), Some(p1::<C, _>(g.pkp.clone(), st[0])?)),
                    None => (None, None),
                };
                let (s1, pk1) = if refreshing { C::api_refresh_dkg_part1(*me, n, t, &mut rng) } else { C::api_dkg_part1(*me, n, t, &mut rng) }.map_err(e("part1"))?;
                push::<C, _>(&mut tr, "round1-package", &pk1);
                let s1 = p1::<C, _>(s1, st[0])?;
                let mut ib: IdMap<C, dkg::round1::Package<C>> = r1.clone();
                ib.remove(me);
                let ib = pm::<C, _>(&ib, st[1])?;
                let (s2, out2) = if refreshing { C::api_refresh_dkg_part2(s1, &ib) } else { C::api_dkg_part2(s1, &ib) }.map_err(e("part2"))?;
                for (to, pk) in &out2 {
                    push::<C, _>(&mut tr, &format!("round2-package#{}", id_hex::<C>(to)), pk);
                }
                let s2 = p1::<C, _>(s2, st[2])?;
                let ib = pm::<C, _>(&ib, st[2])?;
                let in2: IdMap<C, dkg::round2::Package<C>> = ids.iter().filter(|j| *j != me).map(|j| (*j, r2[j][me].clone())).collect();
                let in2 = pm::<C, _>(&in2, st[2])?;
                let (kp, pkp) = if refreshing {
                    C::api_refresh_dkg_shares(&s2, &ib, &in2, opkp.clone().unwrap(), okp.clone().unwrap())
                } else {
                    C::api_dkg_part3(&s2, &ib, &in2)
                }
                .map_err(e("part3"))?;
                push::<C, _>(&mut tr, "key-package", &kp);
                push::<C, _>(&mut tr, "public-key-package", &pkp);
                let kp = p1::<C, _>(kp, st[3])?;
                let _pkp = p1::<C, _>(pkp, st[3])?;
                let (nonces, cm) = C::api_commit(kp.signing_share(), &mut rng);
                push::<C, _>(&mut tr, "signing-commitments", &cm);
                let nonces = p1::<C, _>(nonces, st[4])?;
                if let Some(cs) = comms {
                    if cs.contains_key(me) {
                        let pkg = p1::<C, _>(SigningPackage::new(cs.clone(), &msg), st[4])?;
                        let sh = C::api_sign(&pkg, &nonces, &kp).map_err(e("sign"))?;
                        push::<C, _>(&mut tr, "signature-share", &sh);
                    }
                }
                Ok((tr, cm))
            };
            let mem = [Store::Mem; 5];
            let mut comms = BTreeMap::new();
            for id in &signers {
                match run_participant(id, &mem, None) {
                    Ok((_, cm)) => {
                        comms.insert(*id, cm);
                    }
                    Err(err) => return ctx.viol("honest-run-failed", proto, json!({"err": err})),
                }
            }
            let who: Vec<Identifier<C>> = if ctx.notes.contains_key("large") { vec![ids[0], ids[ids.len() - 1]] } else { ids.clone() };
            for me in &who {
                let base = match run_participant(me, &mem, Some(&comms)) {
                    Ok(x) => x.0,
                    Err(err) => return ctx.viol("honest-run-failed", proto, json!({"err": err})),
                };
                for st in combos(ctx, 5, &mut p) {
                    let got = run_participant(me, &st, Some(&comms)).map(|x| x.0);
                    compare::<C>(ctx, proto, &id_hex::<C>(me), &st, &base, got, n, t);
                }
            }
        }
        "dealer" | "refresh-dealer" => {
            let refreshing = proto == "refresh-dealer";
            let mut drng = prng("dealer", &ids[0]);
            let Ok(g0) = dealer_group::<C>(n, t, if kind == "default" { None } else { Some(&ids0[..]) }, None, &mut drng) else { return };
            let (rshares, newp): (IdMap<C, SecretShare<C>>, PublicKeyPackage<C>) = if refreshing {
                match C::api_compute_refreshing_shares(g0.pkp.clone(), &ids, &mut drng) {
                    Ok((v, np)) => (ids.iter().copied().zip(v).collect(), np),
                    Err(_) => return,
                }
            } else {
                (g0.shares.clone(), g0.pkp.clone())
            };
            let run_participant = |me: &Identifier<C>, st: &[Store], comms: Option<&IdMap<C, SigningCommitments<C>>>| -> Result<(Trace, SigningCommitments<C>), String> {
                let mut tr: Trace = vec![];
                let mut rng = prng("participant", me);
                let share = p1::<C, _>(rshares[me].clone(), st[0])?;
                let kp = if refreshing {
                    let cur = p1::<C, _>(g0.kps[me].clone(), st[0])?;
                    C::api_refresh_share(share, &cur).map_err(e("refresh_share"))?
                } else {
                    KeyPackage::<C>::try_from(share).map_err(e("try_from"))?
                };
                push::<C, _>(&mut tr, "key-package", &kp);
                let kp = p1::<C, _>(kp, st[1])?;
                let (nonces, cm) = C::api_commit(kp.signing_share(), &mut rng);
                push::<C, _>(&mut tr, "signing-commitments", &cm);
                let nonces = p1::<C, _>(nonces, st[2])?;
                if let Some(cs) = comms {
                    if cs.contains_key(me) {
                        let pkg = p1::<C, _>(SigningPackage::new(cs.clone(), &msg), st[2])?;
                        let sh = C::api_sign(&pkg, &nonces, &kp).map_err(e("sign"))?;
                        push::<C, _>(&mut tr, "signature-share", &sh);
                    }
                }
                Ok((tr, cm))
            };
            let _ = newp;
            let mem = [Store::Mem; 3];
            let mut comms = BTreeMap::new();
            for id in &signers {
                match run_participant(id, &mem, None) {
                    Ok((_, cm)) => {
                        comms.insert(*id, cm);
                    }
                    Err(err) => return ctx.viol("honest-run-failed", proto, json!({"err": err})),
                }
            }
            let who: Vec<Identifier<C>> = if ctx.notes.contains_key("large") { vec![ids[0], ids[ids.len() - 1]] } else { ids.clone() };
            for me in &who {
                let base = match run_participant(me, &mem, Some(&comms)) {
                    Ok(x) => x.0,
                    Err(err) => return ctx.viol("honest-run-failed", proto, json!({"err": err})),
                };
                for st in combos(ctx, 3, &mut p) {
                    let got = run_participant(me, &st, Some(&comms)).map(|x| x.0);
                    compare::<C>(ctx, proto, &id_hex::<C>(me), &st, &base, got, n, t);
                }
            }
        }
        "repair" => {
            let mut drng = prng("dealer", &ids[0]);
            let Ok(g0) = dealer_group::<C>(n, t, if kind == "default" { None } else { Some(&ids0[..]) }, None, &mut drng) else { return };
            let lost = ids[0];
            let helpers: Vec<Identifier<C>> = ids.iter().skip(1).take(t as usize).copied().collect();
            if helpers.len() < t as usize {
                return;
            }
            // the whole repair seen from one place; boundaries: deltas stored, sigmas stored, key package stored
            let run_all = |st: &[Store]| -> Result<Trace, String> {
                let mut tr: Trace = vec![];
                let mut inbox: IdMap<C, Vec<Delta<C>>> = BTreeMap::new();
                for h in &helpers {
                    let mut rng = prng("helper", h);
                    let kp = p1::<C, _>(g0.kps[h].clone(), st[0])?;
                    let deltas = C::api_repair_part1(&helpers, &kp, &mut rng, lost).map_err(e("repair_part1"))?;
                    for (to, dl) in deltas {
                        push::<C, _>(&mut tr, &format!("delta#{}->{}", id_hex::<C>(h), id_hex::<C>(&to)), &dl);
                        inbox.entry(to).or_default().push(p1::<C, _>(dl, st[0])?);
                    }
                }
                let mut sigmas: Vec<Sigma<C>> = vec![];
                for h in &helpers {
                    let s = C::api_repair_part2(&inbox[h]);
                    push::<C, _>(&mut tr, &format!("sigma#{}", id_hex::<C>(h)), &s);
                    sigmas.push(p1::<C, _>(s, st[1])?);
                }
                let pkp = p1::<C, _>(g0.pkp.clone(), st[1])?;
                let kp = C::api_repair_part3(&sigmas, lost, &pkp).map_err(e("repair_part3"))?;
                push::<C, _>(&mut tr, "key-package", &kp);
                let kp = p1::<C, _>(kp, st[2])?;
                let mut rng = prng("participant", &lost);
                let (_nonces, cm) = C::api_commit(kp.signing_share(), &mut rng);
                push::<C, _>(&mut tr, "signing-commitments", &cm);
                Ok(tr)
            };
            let base = match run_all(&[Store::Mem; 3]) {
                Ok(x) => x,
                Err(err) => return ctx.viol("honest-run-failed", proto, json!({"err": err})),
            };
            for st in combos(ctx, 3, &mut p) {
                let got = run_all(&st);
                compare::<C>(ctx, proto, "repair", &st, &base, got, n, t);
            }
        }
        _ => {
            // coordinator: stored public key package, signing package and received shares
            let mut drng = prng("dealer", &ids[0]);
            let Ok(g0) = dealer_group::<C>(n, t, if kind == "default" { None } else { Some(&ids0[..]) }, None, &mut drng) else { return };
            let Ok(sess) = sign_session(&g0, &signers, &msg, &mut drng) else { return };
            let run_all = |st: &[Store]| -> Result<Trace, String> {
                let mut tr: Trace = vec![];
                let pkp = p1::<C, _>(g0.pkp.clone(), st[0])?;
                let comms = pm::<C, _>(&sess.comms, st[1])?;
                let pkg = p1::<C, _>(SigningPackage::new(comms, &msg), st[1])?;
                push::<C, _>(&mut tr, "signing-package", &pkg);
                let shares: IdMap<C, SignatureShare<C>> = pm::<C, _>(&sess.shares, st[2])?;
                let sig = C::api_aggregate(&pkg, &shares, &pkp).map_err(e("aggregate"))?;
                push::<C, _>(&mut tr, "signature", &sig);
                let sig = p1::<C, _>(sig, st[2])?;
                let vk = p1::<C, _>(*pkp.verifying_key(), st[0])?;
                vk.verify(&msg, &sig).map_err(e("verify"))?;
                Ok(tr)
            };
            let base = match run_all(&[Store::Mem; 3]) {
                Ok(x) => x,
                Err(err) => return ctx.viol("honest-run-failed", proto, json!({"err": err})),
            };
            for st in combos(ctx, 3, &mut p) {
                let got = run_all(&st);
                compare::<C>(ctx, proto, "coordinator", &st, &base, got, n, t);
            }
        }
    }
    if ctx.samples.is_empty() {
        ctx.sample(json!({"protocol": proto, "n": n, "t": t, "ids": kind,
            "explored": "every participant x every subset of its round boundaries persisted in binary and in JSON (+ random mixes); all later outputs compared byte-for-byte with the uninterrupted run"}));
    }
}
