//! C10 — refreshing shares keeps the group key, re-links all packages, retires old shares.

use std::collections::BTreeMap;

use frost_core::keys::dkg::{self, round1, round2};
use frost_core::keys::refresh;
use frost_core::keys::{IdentifierList, KeyPackage, PublicKeyPackage, SecretShare, SigningShare, VerifiableSecretSharingCommitment};
use frost_core::{CheaterDetection, Identifier, SigningKey, SigningPackage};
use serde_json::json;

use crate::alg::*;
use crate::gen_::*;
use crate::props::c01::judge_session;
use crate::proto::*;
use crate::rng::TraceRng;
use crate::suite::indep_verify;
use crate::{Ctx, Suite};

pub fn run<C: Suite>(ctx: &mut Ctx) {
    let slow = C::NAME == "ed448";
    let max_n: u16 = match (ctx.quick(), slow) {
        (true, true) => 4,
        (true, false) => 5,
        (false, true) => 6,
        (false, false) => 8,
    };
    for (n, t) in shapes(max_n) {
        for (source, kind) in [("dealer", "default"), ("dealer", "sparse-u16"), ("dkg", "derived")] {
            if source == "dkg" && (n > ctx.scale(4, 6) || (slow && ctx.quick() && n > 3)) {
                continue;
            }
            for proc_ in ["dealer-refresh", "dkg-refresh"] {
                if !ctx.item(&format!("n={n} t={t} keys={source} ids={kind} proc={proc_}")) {
                    continue;
                }
                ctx.guard(|ctx| item::<C>(ctx, n, t, source, kind, proc_));
            }
        }
    }
}

/// one refresh of `grp` for the remaining identifiers `rem`; returns the refreshed group
fn do_refresh<C: Suite>(ctx: &mut Ctx, grp: &Grp<C>, rem: &[Identifier<C>], proc_: &str, rng: &mut TraceRng) -> Option<Grp<C>> {
    let t = grp.t;
    let mut kps = BTreeMap::new();
    let pkp;
    if proc_ == "dealer-refresh" {
        let (shares, newp) = match C::api_compute_refreshing_shares(grp.pkp.clone(), rem, rng) {
            Ok(x) => x,
            Err(e) => {
                ctx.viol("valid-refresh-refused", "dealer/compute", json!({"n": grp.n, "t": t, "remaining": rem.len(), "err": format!("{e:?}")}));
                return None;
            }
        };
        if shares.len() != rem.len() {
            ctx.viol("refresh-output-inconsistent", "dealer/share-count", json!({}));
            return None;
        }
        for (id, sh) in rem.iter().zip(shares) {
            if sh.identifier() != id {
                ctx.viol("refresh-output-inconsistent", "dealer/share-order", json!({}));
            }
            match C::api_refresh_share(sh, &grp.kps[id]) {
                Ok(kp) => {
                    kps.insert(*id, kp);
                }
                Err(e) => {
                    ctx.viol("valid-refresh-refused", "dealer/refresh_share", json!({"n": grp.n, "t": t, "err": format!("{e:?}")}));
                    return None;
                }
            }
        }
        pkp = newp;
    } else {
        let m = rem.len() as u16;
        let mut sec1 = BTreeMap::new();
        let mut p1 = BTreeMap::new();
        for id in rem {
            match C::api_refresh_dkg_part1(*id, m, t, &mut *rng) {
                Ok((s, p)) => {
                    sec1.insert(*id, s);
                    p1.insert(*id, p);
                }
                Err(e) => {
                    ctx.viol("valid-refresh-refused", "dkg/part1", json!({"err": format!("{e:?}")}));
                    return None;
                }
            }
        }
        let mut sec2 = BTreeMap::new();
        let mut p2: IdMap<C, IdMap<C, round2::Package<C>>> = BTreeMap::new();
        for id in rem {
            let mut inbox = p1.clone();
            inbox.remove(id);
            match C::api_refresh_dkg_part2(sec1[id].clone(), &inbox) {
                Ok((s, p)) => {
                    sec2.insert(*id, s);
                    p2.insert(*id, p);
                }
                Err(e) => {
                    ctx.viol("valid-refresh-refused", "dkg/part2", json!({"err": format!("{e:?}")}));
                    return None;
                }
            }
        }
        let mut pkps = vec![];
        for id in rem {
            let mut r1 = p1.clone();
            r1.remove(id);
            let r2: IdMap<C, round2::Package<C>> = rem.iter().filter(|j| *j != id).map(|j| (*j, p2[j][id].clone())).collect();
            match C::api_refresh_dkg_shares(&sec2[id], &r1, &r2, grp.pkp.clone(), grp.kps[id].clone()) {
                Ok((kp, pk)) => {
                    kps.insert(*id, kp);
                    pkps.push(pk);
                }
                Err(e) => {
                    ctx.viol("valid-refresh-refused", "dkg/shares", json!({"err": format!("{e:?}")}));
                    return None;
                }
            }
        }
        if pkps.iter().any(|p| p != &pkps[0]) {
            ctx.viol("refresh-output-inconsistent", "dkg/public-packages-differ", json!({"n": grp.n, "t": t}));
        }
        pkp = pkps[0].clone();
    }
    let mut ids = rem.to_vec();
    sort_ids_numeric::<C>(&mut ids);
    Some(Grp { n: rem.len() as u16, t, ids, kps, pkp, shares: BTreeMap::new(), secret: grp.secret, source: "refreshed" })
}

/// the positive clauses of C10 on a refreshed group
fn judge_refreshed<C: Suite>(ctx: &mut Ctx, old: &Grp<C>, new: &Grp<C>, proc_: &str, gen_no: usize) {
    let d = |what: &str, extra: serde_json::Value| json!({"what": what, "proc": proc_, "generation": gen_no, "n": old.n, "t": old.t, "remaining": new.ids.iter().map(id_hex::<C>).collect::<Vec<_>>(), "extra": extra});
    if new.pkp.verifying_key() != old.pkp.verifying_key() {
        ctx.viol("group-key-changed", proc_, d("refreshed public key package has another group key", json!({})));
    }
    if new.pkp.min_signers() != Some(old.t) {
        ctx.viol("refresh-output-inconsistent", &format!("{proc_}/pkp-threshold"), d("threshold in refreshed public key package", json!({"got": format!("{:?}", new.pkp.min_signers())})));
    }
    let keys: Vec<_> = new.pkp.verifying_shares().keys().copied().collect();
    let mut want = new.ids.clone();
    want.sort();
    if keys != want {
        ctx.viol("refresh-output-inconsistent", &format!("{proc_}/pkp-participants"), d("refreshed public key package does not list exactly the remaining participants", json!({"listed": keys.len()})));
    }
    let mut changed = 0;
    for id in &new.ids {
        let kp = &new.kps[id];
        let okp = &old.kps[id];
        if kp.identifier() != id || kp.min_signers() != okp.min_signers() {
            ctx.viol("refresh-output-inconsistent", &format!("{proc_}/identifier-or-threshold"), d("identifier / threshold changed", json!({"id": id_hex::<C>(id)})));
        }
        if kp.verifying_key() != old.pkp.verifying_key() {
            ctx.viol("group-key-changed", &format!("{proc_}/key-package"), d("key package group key changed", json!({"id": id_hex::<C>(id)})));
        }
        let gs = g::<C>() * kp.signing_share().to_scalar();
        if kp.verifying_share().to_element() != gs {
            ctx.viol("keypackage-verifying-share-stale", proc_, d("refreshed key package: verifying_share != G * new signing share", json!({"id": id_hex::<C>(id),
                "equals_old_verifying_share": kp.verifying_share() == okp.verifying_share()})));
        }
        match new.pkp.verifying_shares().get(id) {
            Some(v) if v.to_element() == gs => {}
            _ => ctx.viol("refresh-output-inconsistent", &format!("{proc_}/pkp-entry"), d("refreshed public key package entry != G * new signing share", json!({"id": id_hex::<C>(id)}))),
        }
        if kp.signing_share() != okp.signing_share() {
            changed += 1;
        }
        ctx.count("refreshed_packages_checked");
    }
    if changed != new.ids.len() {
        ctx.viol("share-not-refreshed", proc_, d("some signing share is unchanged by the refresh", json!({"changed": changed})));
    }
    // the refreshed shares are still a sharing of the same key (t of them interpolate to it)
    let xs: Vec<Sc<C>> = new.ids.iter().map(id_sc::<C>).collect();
    let ys: Vec<Sc<C>> = new.ids.iter().map(|i| new.kps[i].signing_share().to_scalar()).collect();
    let tt = old.t as usize;
    if let Some(k0) = interpolate_at::<C>(&xs[..tt], &ys[..tt], zero::<C>()) {
        if g::<C>() * k0 != old.pkp.verifying_key().to_element() {
            ctx.viol("group-key-changed", &format!("{proc_}/sharing"), d("t refreshed shares no longer interpolate to the group secret", json!({})));
        }
    }
}

fn item<C: Suite>(ctx: &mut Ctx, n: u16, t: u16, source: &str, kind: &str, proc_: &str) {
    let mut rng = ctx.rng("keys");
    let mut p = ctx.pick("choices");
    let mut ids = identifiers::<C>(kind, n as usize + 1, &mut p);
    let outsider = ids.pop().unwrap();
    let idl = if kind == "default" { None } else { Some(&ids[..]) };
    let g0 = match source {
        "dealer" => dealer_group::<C>(n, t, idl, None, &mut rng),
        _ => dkg_group::<C>(n, t, &ids, &mut rng).map(|x| x.0),
    };
    let g0 = match g0 {
        Ok(g) => g,
        Err(e) => return ctx.viol("honest-keygen-failed", "", json!({"err": format!("{e:?}")})),
    };
    let nn = n as usize;
    let tt = t as usize;
    // thorough: every remaining set up to n = 6, a sample of 8 per size above
    let per_size = ctx.scale(2, if n <= 6 { 1000 } else { 8 });
    let mut rsets: Vec<Vec<usize>> = vec![];
    for k in tt..=nn {
        let mut s = subsets(nn, k, 1000, &mut p);
        p.shuffle(&mut s);
        rsets.extend(s.into_iter().take(per_size));
    }
    let msg = p.bytes(24);
    for (ri, rset) in rsets.iter().enumerate() {
        let mut rem = pick_ids(&g0.ids, rset);
        p.shuffle(&mut rem);
        if rem.len() < 2 {
            continue;
        }
        let removed: Vec<Identifier<C>> = g0.ids.iter().filter(|i| !rem.contains(i)).copied().collect();
        // chain of refreshes over the same remaining set (1..3)
        let chain = 1 + (ri % 3).min(if ctx.quick() { 1 } else { 2 });
        let mut cur = g0.clone();
        let mut gens: Vec<Grp<C>> = vec![];
        for gno in 0..chain {
            let Some(nx) = do_refresh::<C>(ctx, &cur, &rem, proc_, &mut rng) else { return };
            judge_refreshed(ctx, &cur, &nx, proc_, gno + 1);
            // any t refreshed participants can sign
            let mut tsubs = subsets(rem.len(), tt, ctx.scale(2, 10), &mut p);
            p.shuffle(&mut tsubs);
            for sub in tsubs.into_iter().take(ctx.scale(2, 10)) {
                let signers = pick_ids(&nx.ids, &sub);
                match sign_session(&nx, &signers, &msg, &mut rng) {
                    Ok(sess) => {
                        judge_session(ctx, "after-refresh", &nx, &sess, &msg, false);
                    }
                    Err((id, e)) => ctx.viol("refreshed-cannot-sign", proc_, json!({"n": n, "t": t, "signer": id_hex::<C>(&id), "err": format!("{e:?}")})),
                }
            }
            gens.push(nx.clone());
            cur = nx;
        }
        ctx.count("refreshes");
        ctx.class(format!("n={n}/t={t}/{source}/{proc_}/R={}/chain={chain}", rem.len()));
        // mixing generations: every proper old/new mix of a t-subset of the remaining participants
        let newest = gens.last().unwrap();
        let oldest = &g0;
        let mut tsubs = subsets(rem.len(), tt, 4, &mut p);
        p.shuffle(&mut tsubs);
        for sub in tsubs.into_iter().take(ctx.scale(1, 3)) {
            let signers = pick_ids(&newest.ids, &sub);
            for mask in 1u32..((1u32 << tt) - 1) {
                let pick_kp = |i: usize, id: &Identifier<C>| if mask >> i & 1 == 1 { oldest.kps[id].clone() } else { newest.kps[id].clone() };
                let kps: Vec<KeyPackage<C>> = signers.iter().enumerate().map(|(i, id)| pick_kp(i, id)).collect();
                mixed_attempt::<C>(ctx, &kps, &[&oldest.pkp, &newest.pkp], &msg, &mut rng, proc_, "old-new-mix", n, t);
            }
            // a previous (not first) generation mixed with the newest one
            if gens.len() >= 2 {
                let mid = &gens[gens.len() - 2];
                let kps: Vec<KeyPackage<C>> = signers.iter().enumerate().map(|(i, id)| if i == 0 { mid.kps[id].clone() } else { newest.kps[id].clone() }).collect();
                mixed_attempt::<C>(ctx, &kps, &[&mid.pkp, &newest.pkp], &msg, &mut rng, proc_, "previous-generation-mix", n, t);
            }
        }
        // a removed participant (old share) joining refreshed participants
        for rm in removed.iter().take(2) {
            let mut kps: Vec<KeyPackage<C>> = newest.ids.iter().take(tt - 1).map(|id| newest.kps[id].clone()).collect();
            kps.push(oldest.kps[rm].clone());
            mixed_attempt::<C>(ctx, &kps, &[&oldest.pkp, &newest.pkp], &msg, &mut rng, proc_, "removed-participant", n, t);
            // and on top of a full refreshed threshold set
            if rem.len() >= tt {
                let mut kps: Vec<KeyPackage<C>> = newest.ids.iter().take(tt).map(|id| newest.kps[id].clone()).collect();
                kps.push(oldest.kps[rm].clone());
                mixed_attempt::<C>(ctx, &kps, &[&oldest.pkp, &newest.pkp], &msg, &mut rng, proc_, "removed-participant-extra", n, t);
            }
        }
        // ---- refreshes that must be rejected ---------------------------------------------
        rejected::<C>(ctx, &g0, &rem, outsider, proc_, &mut rng, n, t);
    }
    if ctx.samples.is_empty() {
        ctx.sample(json!({"n": n, "t": t, "keys": source, "ids": kind, "procedure": proc_, "remaining_sets": rsets.len(),
            "checked": "group key, identifier/threshold, verifying share == G*new share == public entry, t refreshed sign, every old/new mix fails under old and new public packages in 3 modes, removed participant fails, threshold change / unknown participant / non-zero constant term rejected"}));
    }
}

#[allow(clippy::too_many_arguments)]
fn mixed_attempt<C: Suite>(ctx: &mut Ctx, kps: &[KeyPackage<C>], pkps: &[&PublicKeyPackage<C>], msg: &[u8], rng: &mut TraceRng, proc_: &str, what: &str, n: u16, t: u16) {
    let mut nonces = BTreeMap::new();
    let mut comms = BTreeMap::new();
    for kp in kps {
        let (nn, cc) = C::api_commit(kp.signing_share(), rng);
        nonces.insert(*kp.identifier(), nn);
        comms.insert(*kp.identifier(), cc);
    }
    let pkg = SigningPackage::new(comms, msg);
    let mut shares = BTreeMap::new();
    for kp in kps {
        match C::api_sign(&pkg, &nonces[kp.identifier()], kp) {
            Ok(s) => {
                shares.insert(*kp.identifier(), s);
            }
            Err(e) => {
                ctx.count(&format!("{what}/sign-refused/{}", err_name(&e)));
                return;
            }
        }
    }
    ctx.count("mixed_attempts");
    ctx.class(format!("{what}/{proc_}/t={t}"));
    for (pi, pkp) in pkps.iter().enumerate() {
        for (mode, mname) in [(CheaterDetection::FirstCheater, "first"), (CheaterDetection::AllCheaters, "all"), (CheaterDetection::Disabled, "disabled")] {
            match frost_core::aggregate_custom(&pkg, &shares, pkp, mode) {
                Err(e) => ctx.count(&format!("{what}/aggregate/{mname}/{}", err_name(&e))),
                Ok(sig) => ctx.viol("mixed-generations-sign", &format!("{what}/{proc_}"), json!({"n": n, "t": t, "pkp": if pi == 0 {"old"} else {"new"}, "mode": mname,
                    "sig": sig.serialize().map(hex::encode).unwrap_or_default()})),
            }
        }
    }
    // whatever can be assembled must not verify under the group key
    let vk = *pkps[0].verifying_key();
    if let Ok(bfl) = frost_core::compute_binding_factor_list(&pkg, &vk, &[]) {
        if let Ok(gc) = frost_core::compute_group_commitment(&pkg, &bfl) {
            let mut z = zero::<C>();
            for s in shares.values() {
                z = z + s.share().0;
            }
            if let Some(rb) = el_bytes::<C>(&gc.to_element()) {
                let cands: Vec<Vec<u8>> = if C::TAPROOT {
                    vec![[&rb[1..], &sc_bytes::<C>(&z)[..]].concat(), [&rb[1..], &sc_bytes::<C>(&neg::<C>(z))[..]].concat()]
                } else {
                    vec![[&rb[..], &sc_bytes::<C>(&z)[..]].concat()]
                };
                for sb in cands {
                    if indep_verify::<C>(&vk.serialize().unwrap(), msg, &sb) {
                        ctx.viol("mixed-generations-sign", &format!("{what}/{proc_}/assembled"), json!({"n": n, "t": t}));
                    }
                }
            }
        }
    }
}

#[allow(clippy::too_many_arguments)]
fn rejected<C: Suite>(ctx: &mut Ctx, g0: &Grp<C>, rem: &[Identifier<C>], outsider: Identifier<C>, proc_: &str, rng: &mut TraceRng, n: u16, t: u16) {
    let m = rem.len() as u16;
    let d = |what: &str| json!({"what": what, "proc": proc_, "n": n, "t": t, "remaining": rem.len()});
    let me = rem[0];
    if proc_ == "dealer-refresh" {
        // (i) a refresh that would change the threshold
        for t2 in [t + 1, t.saturating_sub(1)] {
            if t2 < 2 || t2 > m {
                continue;
            }
            let lying = PublicKeyPackage::new(g0.pkp.verifying_shares().clone(), *g0.pkp.verifying_key(), Some(t2));
            if let Ok((shares, _)) = C::api_compute_refreshing_shares(lying, rem, rng) {
                match C::api_refresh_share(shares[0].clone(), &g0.kps[&rem[0]]) {
                    Err(e) => ctx.count(&format!("rejected/threshold-change/{}", err_name(&e))),
                    Ok(_) => ctx.viol("bad-refresh-accepted", "dealer/threshold-change", d(&format!("refreshing share with threshold {t2} accepted"))),
                }
                ctx.class(format!("reject/dealer/threshold-{}", if t2 > t { "raised" } else { "lowered" }));
            }
        }
        // (i') a threshold change by 65536: a refreshing share whose commitment has t-1+65536 entries and whose value lies
        // on that longer polynomial (the recorded threshold is a u16). Seconds per verification: smallest shapes, fast suites.
        if n <= 3 && rem.len() == n as usize && C::NAME != "ed448" && C::NAME != "p256" {
            if let Ok((shares, _)) = C::api_compute_refreshing_shares(g0.pkp.clone(), rem, rng) {
                let sh = &shares[0];
                let c = sc_u64::<C>(5);
                let mut els: Vec<El<C>> = sh.commitment().coefficients().iter().map(|x| x.value()).collect();
                let base_len = els.len();
                els.resize(base_len + 65_536, g::<C>() * c);
                // the stored commitment lacks the (identity) constant term: entry k belongs to x^(k+1)
                let x = id_sc::<C>(sh.identifier());
                let mut pw = x;
                for _ in 0..base_len {
                    pw = pw * x;
                }
                let mut sum = zero::<C>();
                for _ in 0..65_536u32 {
                    sum = sum + pw;
                    pw = pw * x;
                }
                let long = frost_core::keys::SecretShare::<C>::new(
                    *sh.identifier(),
                    frost_core::keys::SigningShare::<C>::new(sh.signing_share().to_scalar() + c * sum),
                    frost_core::keys::VerifiableSecretSharingCommitment::<C>::new(els.into_iter().map(frost_core::keys::CoefficientCommitment::<C>::new).collect()),
                );
                match C::api_refresh_share(long, &g0.kps[sh.identifier()]) {
                    Err(e) => ctx.count(&format!("rejected/threshold-change-by-65536/{}", err_name(&e))),
                    Ok(_) => ctx.viol("bad-refresh-accepted", "dealer/threshold-change-by-65536", d("a refreshing share of a polynomial of degree t-1+65536 (consistent value, commitment of t-1+65536 entries) accepted")),
                }
                ctx.class("reject/dealer/threshold-change-by-65536");
            }
        }
        // (ii) an unknown participant
        let mut with_out = rem.to_vec();
        with_out.push(outsider);
        match C::api_compute_refreshing_shares(g0.pkp.clone(), &with_out, rng) {
            Err(e) => ctx.count(&format!("rejected/unknown-participant/{}", err_name(&e))),
            Ok(_) => ctx.viol("bad-refresh-accepted", "dealer/unknown-participant", d("compute_refreshing_shares accepted an identifier that is not in the group")),
        }
        ctx.class("reject/dealer/unknown-participant");
        // too few remaining participants
        if (t as usize) > 2 || rem.len() > 1 {
            let few = &rem[..(t as usize - 1).max(1)];
            match C::api_compute_refreshing_shares(g0.pkp.clone(), few, rng) {
                Err(e) => ctx.count(&format!("rejected/too-few/{}", err_name(&e))),
                Ok(_) => ctx.viol("bad-refresh-accepted", "dealer/too-few-remaining", d("refresh for fewer than t participants accepted")),
            }
        }
        // (iii) a refreshing share whose polynomial has a non-zero constant term:
        // shares of an ordinary split of a non-zero key with the first commitment entry stripped
        let key = SigningKey::<C>::new(&mut *rng);
        if let Ok((shares, _)) = C::api_split(&key, m, t, IdentifierList::Custom(rem), &mut *rng) {
            let sh = &shares[&me];
            let stripped: Vec<_> = sh.commitment().coefficients()[1..].to_vec();
            let bad = SecretShare::<C>::new(me, *sh.signing_share(), VerifiableSecretSharingCommitment::<C>::new(stripped));
            match C::api_refresh_share(bad, &g0.kps[&me]) {
                Err(e) => ctx.count(&format!("rejected/nonzero-constant/{}", err_name(&e))),
                Ok(_) => ctx.viol("bad-refresh-accepted", "dealer/nonzero-constant-term", d("refresh_share accepted a share of a polynomial with non-zero constant term")),
            }
            ctx.class("reject/dealer/nonzero-constant-term");
            // a refreshing share for another participant / altered value
            if rem.len() >= 2 {
                if let Ok((rs, _)) = C::api_compute_refreshing_shares(g0.pkp.clone(), rem, rng) {
                    let other = &rs[1];
                    let misaddressed = SecretShare::<C>::new(me, *other.signing_share(), other.commitment().clone());
                    match C::api_refresh_share(misaddressed, &g0.kps[&me]) {
                        Err(e) => ctx.count(&format!("rejected/share-of-other/{}", err_name(&e))),
                        Ok(_) => ctx.viol("bad-refresh-accepted", "dealer/share-of-other-participant", d("refresh_share accepted another participant's refreshing share")),
                    }
                    let altered = SecretShare::<C>::new(me, SigningShare::<C>::new(rs[0].signing_share().to_scalar() + one::<C>()), rs[0].commitment().clone());
                    match C::api_refresh_share(altered, &g0.kps[&me]) {
                        Err(e) => ctx.count(&format!("rejected/share-altered/{}", err_name(&e))),
                        Ok(_) => ctx.viol("bad-refresh-accepted", "dealer/share-altered", d("refresh_share accepted an altered refreshing share")),
                    }
                    ctx.class("reject/dealer/share-tampered");
                }
            }
        }
    } else {
        if rem.len() < 2 {
            return;
        }
        // honest distributed refresh material to tamper with
        let mut sec1 = BTreeMap::new();
        let mut p1: IdMap<C, round1::Package<C>> = BTreeMap::new();
        for id in rem {
            let Ok((s, p)) = C::api_refresh_dkg_part1(*id, m, t, &mut *rng) else { return };
            sec1.insert(*id, s);
            p1.insert(*id, p);
        }
        let inbox = |p1: &IdMap<C, round1::Package<C>>| {
            let mut x = p1.clone();
            x.remove(&me);
            x
        };
        let honest_r2 = |from: &Identifier<C>| -> Option<round2::Package<C>> {
            let mut ib = p1.clone();
            ib.remove(from);
            C::api_refresh_dkg_part2(sec1[from].clone(), &ib).ok().map(|x| x.1[&me].clone())
        };
        // (iii) one participant contributes an ordinary DKG polynomial (a_0 != 0), first entry stripped
        let cheat = rem[1];
        if let Ok((csec, cpkg)) = C::api_dkg_part1(cheat, m, t, &mut *rng) {
            let stripped: Vec<_> = cpkg.commitment().coefficients()[1..].to_vec();
            let bad_pkg = round1::Package::new(VerifiableSecretSharingCommitment::<C>::new(stripped), *cpkg.proof_of_knowledge());
            let mut p1b = p1.clone();
            p1b.insert(cheat, bad_pkg);
            let r1 = inbox(&p1b);
            if let Ok((sec2, _)) = C::api_refresh_dkg_part2(sec1[&me].clone(), &r1) {
                let mut r2 = BTreeMap::new();
                let mut ok = true;
                for j in rem.iter().filter(|j| **j != me) {
                    if *j == cheat {
                        r2.insert(*j, round2::Package::new(SigningShare::<C>::from_coefficients(&csec.coefficients(), me)));
                    } else if let Some(pk) = honest_r2(j) {
                        r2.insert(*j, pk);
                    } else {
                        ok = false;
                    }
                }
                if ok {
                    match C::api_refresh_dkg_shares(&sec2, &r1, &r2, g0.pkp.clone(), g0.kps[&me].clone()) {
                        Err(e) => ctx.count(&format!("rejected/nonzero-constant/{}", err_name(&e))),
                        Ok((kp, _)) => {
                            let drift = g::<C>() * kp.signing_share().to_scalar() != g0.kps[&me].verifying_share().to_element();
                            ctx.viol("bad-refresh-accepted", "dkg/nonzero-constant-term", d(&format!("refresh_dkg_shares accepted a contribution with a_0 != 0 (share drifted: {drift})")));
                        }
                    }
                    ctx.class("reject/dkg/nonzero-constant-term");
                }
            }
        }
        // (i) threshold change: the refresh run uses another threshold than the group
        for t2 in [t + 1, t.saturating_sub(1)] {
            if t2 < 2 || t2 > m {
                continue;
            }
            let mut s1 = BTreeMap::new();
            let mut q1 = BTreeMap::new();
            for id in rem {
                let Ok((s, p)) = C::api_refresh_dkg_part1(*id, m, t2, &mut *rng) else { return };
                s1.insert(*id, s);
                q1.insert(*id, p);
            }
            let r1 = inbox(&q1);
            let res = C::api_refresh_dkg_part2(s1[&me].clone(), &r1).and_then(|(sec2, _)| {
                let mut r2 = BTreeMap::new();
                for j in rem.iter().filter(|j| **j != me) {
                    let mut ib = q1.clone();
                    ib.remove(j);
                    let (_, out) = C::api_refresh_dkg_part2(s1[j].clone(), &ib)?;
                    r2.insert(*j, out[&me].clone());
                }
                // the same with the group's public key package in its older form, which records no threshold: the
                // participant's own key package still does
                let legacy = PublicKeyPackage::<C>::new(g0.pkp.verifying_shares().clone(), *g0.pkp.verifying_key(), None);
                match C::api_refresh_dkg_shares(&sec2, &r1, &r2, legacy, g0.kps[&me].clone()) {
                    Err(e) => ctx.count(&format!("rejected/threshold-change-legacy-package/{}", err_name(&e))),
                    Ok(_) => ctx.viol("bad-refresh-accepted", "dkg/threshold-change/legacy-public-key-package", d(&format!("distributed refresh with threshold {t2} accepted when the old public key package records no threshold"))),
                }
                C::api_refresh_dkg_shares(&sec2, &r1, &r2, g0.pkp.clone(), g0.kps[&me].clone())
            });
            match res {
                Err(e) => ctx.count(&format!("rejected/threshold-change/{}", err_name(&e))),
                Ok(_) => ctx.viol("bad-refresh-accepted", "dkg/threshold-change", d(&format!("distributed refresh with threshold {t2} accepted"))),
            }
            ctx.class(format!("reject/dkg/threshold-{}", if t2 > t { "raised" } else { "lowered" }));
        }
        // one participant alone uses another threshold
        if t + 1 <= m {
            if let Ok((_, odd)) = C::api_refresh_dkg_part1(cheat, m, t + 1, &mut *rng) {
                let mut p1b = p1.clone();
                p1b.insert(cheat, odd);
                match C::api_refresh_dkg_part2(sec1[&me].clone(), &inbox(&p1b)) {
                    Err(e) => ctx.count(&format!("rejected/one-threshold-differs/{}", err_name(&e))),
                    Ok(_) => ctx.viol("bad-refresh-accepted", "dkg/one-threshold-differs", d("refresh_dkg_part2 accepted a contribution of another degree")),
                }
                ctx.class("reject/dkg/one-threshold-differs");
            }
        }
        // (ii) an unknown participant takes part in the refresh run
        {
            let mut ids2 = rem.to_vec();
            ids2.push(outsider);
            let m2 = ids2.len() as u16;
            let mut s1 = BTreeMap::new();
            let mut q1 = BTreeMap::new();
            for id in &ids2 {
                let Ok((s, p)) = C::api_refresh_dkg_part1(*id, m2, t, &mut *rng) else { return };
                s1.insert(*id, s);
                q1.insert(*id, p);
            }
            let r1 = inbox(&q1);
            let res = C::api_refresh_dkg_part2(s1[&me].clone(), &r1).and_then(|(sec2, _)| {
                let mut r2 = BTreeMap::new();
                for j in ids2.iter().filter(|j| **j != me) {
                    let mut ib = q1.clone();
                    ib.remove(j);
                    let (_, out) = C::api_refresh_dkg_part2(s1[j].clone(), &ib)?;
                    r2.insert(*j, out[&me].clone());
                }
                C::api_refresh_dkg_shares(&sec2, &r1, &r2, g0.pkp.clone(), g0.kps[&me].clone())
            });
            match res {
                Err(e) => ctx.count(&format!("rejected/unknown-participant/{}", err_name(&e))),
                Ok(_) => ctx.viol("bad-refresh-accepted", "dkg/unknown-participant", d("distributed refresh with a participant unknown to the group accepted")),
            }
            ctx.class("reject/dkg/unknown-participant");
        }
        // a round-two share altered / for another recipient
        let r1 = inbox(&p1);
        if let Ok((sec2, _)) = C::api_refresh_dkg_part2(sec1[&me].clone(), &r1) {
            let mut r2 = BTreeMap::new();
            for j in rem.iter().filter(|j| **j != me) {
                if let Some(pk) = honest_r2(j) {
                    r2.insert(*j, pk);
                }
            }
            if r2.len() == rem.len() - 1 {
                let victim = rem[1];
                let mut bad = r2.clone();
                bad.insert(victim, round2::Package::new(SigningShare::<C>::new(r2[&victim].signing_share().to_scalar() + one::<C>())));
                match C::api_refresh_dkg_shares(&sec2, &r1, &bad, g0.pkp.clone(), g0.kps[&me].clone()) {
                    Err(e) => ctx.count(&format!("rejected/share-altered/{}", err_name(&e))),
                    Ok(_) => ctx.viol("bad-refresh-accepted", "dkg/share-altered", d("refresh_dkg_shares accepted an altered share")),
                }
                ctx.class("reject/dkg/share-altered");
            }
        }
    }
}
