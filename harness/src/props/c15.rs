//! C15 — signing nonces are fresh, hedged, and derived exactly as the RFC prescribes.
//!
//! The oracle is defined on the consumed *byte stream* of the recording random source:
//! nonce pair j must equal (H3(stream[64j..64j+32] || enc(share)), H3(stream[64j+32..64j+64] || enc(share))).

use std::collections::BTreeMap;

use frost_core::keys::SigningShare;
use frost_core::round1::{self, Nonce, SigningCommitments, SigningNonces};
use frost_core::Identifier;
use serde_json::json;

use crate::alg::*;
use crate::proto::*;
use crate::rng::TraceRng;
use crate::{Ctx, Suite};

pub fn run<C: Suite>(ctx: &mut Ctx) {
    let reps = ctx.scale(if C::NAME == "ed448" { 8 } else { 30 }, 200);
    for share_kind in ["random", "one", "order-1", "dkg", "refreshed", "zero"] {
        for src in ["chacha", "constant", "period32", "period7", "counter"] {
            for rep in 0..reps {
                if rep > 0 && src != "chacha" && rep % 4 != 0 {
                    continue;
                }
                if !ctx.item(&format!("share={share_kind} source={src} rep={rep}")) {
                    continue;
                }
                ctx.guard(|ctx| item::<C>(ctx, share_kind, src, rep));
            }
        }
    }
}

fn make_rng(ctx: &Ctx, src: &str, rep: usize) -> TraceRng {
    match src {
        "constant" => TraceRng::constant([0x00u8, 0x42, 0xff, 0x01][rep % 4]),
        "period32" => TraceRng::period(ctx.pick("period").bytes(32)),
        "period7" => TraceRng::period(ctx.pick("period").bytes(7)),
        "counter" => TraceRng::counter(rep as u64 * 17),
        _ => ctx.rng("nonce-source"),
    }
}

struct Seen {
    /// (random bytes, share encoding) -> nonce encoding
    map: BTreeMap<(Vec<u8>, Vec<u8>), Vec<u8>>,
    /// nonce encoding -> first input that produced it
    rev: BTreeMap<Vec<u8>, (Vec<u8>, Vec<u8>)>,
}

fn check_pair<C: Suite>(ctx: &mut Ctx, seen: &mut Seen, share: &SigningShare<C>, stream: &[u8], j: usize, nonces: &SigningNonces<C>, comm: &SigningCommitments<C>, how: &str, log: bool) {
    let senc = share.serialize();
    let d = |what: &str| json!({"what": what, "entry": how, "pair": j, "share": hex::encode(&senc), "stream": hex::encode(&stream[(64 * j).min(stream.len())..(64 * j + 64).min(stream.len())])});
    if stream.len() < 64 * j + 64 {
        ctx.viol("random-bytes-consumed", "too-few", d("fewer than 64 bytes were drawn for this nonce pair"));
        return;
    }
    let rh = &stream[64 * j..64 * j + 32];
    let rb = &stream[64 * j + 32..64 * j + 64];
    let exp_h = C::H3(&[rh, &senc[..]].concat());
    let exp_b = C::H3(&[rb, &senc[..]].concat());
    let got_h = nonces.hiding().to_scalar();
    let got_b = nonces.binding().to_scalar();
    if got_h != exp_h {
        ctx.viol("nonce-derivation", "hiding", d("hiding nonce != H3(first 32 bytes || share)"));
    }
    if got_b != exp_b {
        ctx.viol("nonce-derivation", "binding", d("binding nonce != H3(next 32 bytes || share)"));
    }
    if comm.hiding().value() != g::<C>() * got_h || comm.binding().value() != g::<C>() * got_b {
        ctx.viol("commitment-not-generator-times-nonce", "", d("published commitment != G * nonce"));
    }
    if nonces.commitments() != comm {
        ctx.viol("commitment-not-generator-times-nonce", "stored-vs-published", d("commitments stored with the nonces differ from the published ones"));
    }
    if got_h == zero::<C>() || got_b == zero::<C>() || comm.hiding().value() == ident::<C>() || comm.binding().value() == ident::<C>() {
        ctx.viol("zero-nonce", "", d("zero nonce / identity commitment"));
    }
    for (r, n) in [(rh, got_h), (rb, got_b)] {
        let key = (r.to_vec(), senc.clone());
        let nb = sc_bytes::<C>(&n);
        if let Some(prev) = seen.map.get(&key) {
            if prev != &nb {
                ctx.viol("nonce-not-a-function-of-inputs", "", d("equal (random bytes, share) produced different nonces"));
            }
        }
        if let Some(prev_in) = seen.rev.get(&nb) {
            if prev_in != &key {
                ctx.viol("nonce-reuse", "", d("different (random bytes, share) produced the same nonce"));
            }
        }
        seen.map.insert(key.clone(), nb.clone());
        seen.rev.insert(nb, key);
    }
    ctx.count("nonce_pairs_checked");
    if log {
        ctx.event(json!({"k": "nonce", "item": ctx.cur_item, "share": hex::encode(&senc), "rand_h": hex::encode(rh), "rand_b": hex::encode(rb),
            "hiding": sc_hex::<C>(&got_h), "binding": sc_hex::<C>(&got_b),
            "ch": el_hex::<C>(&comm.hiding().value()), "cb": el_hex::<C>(&comm.binding().value())}));
        ctx.count("python_samples");
    }
}

fn item<C: Suite>(ctx: &mut Ctx, share_kind: &str, src: &str, rep: usize) {
    let mut krng = ctx.rng("keys");
    let mut p = ctx.pick("choices");
    let share: SigningShare<C> = match share_kind {
        "one" => SigningShare::<C>::new(one::<C>()),
        "order-1" => SigningShare::<C>::new(neg::<C>(one::<C>())),
        "zero" => SigningShare::<C>::new(zero::<C>()),
        "dkg" => {
            let ids: Vec<Identifier<C>> = (1..=3u16).map(|i| Identifier::try_from(i).unwrap()).collect();
            match dkg_group::<C>(3, 2, &ids, &mut krng) {
                Ok((g, _, _)) => *g.kps[&ids[rep % 3]].signing_share(),
                Err(_) => return,
            }
        }
        "refreshed" => {
            let Ok(g0) = dealer_group::<C>(3, 2, None, None, &mut krng) else { return };
            let Ok((sh, _)) = C::api_compute_refreshing_shares(g0.pkp.clone(), &g0.ids, &mut krng) else { return };
            match C::api_refresh_share(sh[0].clone(), &g0.kps[&g0.ids[0]]) {
                Ok(kp) => *kp.signing_share(),
                Err(_) => return,
            }
        }
        _ => SigningShare::<C>::new(sc_from_be_bytes_mod::<C>(&p.bytes(64))),
    };
    let other = SigningShare::<C>::new(share.to_scalar() + one::<C>());
    let mut seen = Seen { map: BTreeMap::new(), rev: BTreeMap::new() };
    let log = rep < ctx.scale(2, 14);

    // commit x m
    let mut rng = make_rng(ctx, src, rep);
    let m = 1 + rep % 3;
    for j in 0..m {
        let before = rng.total();
        let (nn, cc) = C::api_commit(&share, &mut rng);
        if rng.total() - before != 64 {
            ctx.viol("random-bytes-consumed", "commit", json!({"consumed": rng.total() - before, "expected": 64, "source": src}));
        }
        let stream = rng.stream.clone();
        check_pair::<C>(ctx, &mut seen, &share, &stream, j, &nn, &cc, "commit", log && j == 0);
    }
    ctx.class(format!("commit/{share_kind}/{src}/m={m}"));

    // preprocess(k)
    // batch sizes up to the limit of the u8 parameter (127 / 128: the count doubled no longer fits a u8)
    let mut ks: Vec<u8> = vec![0, 1, 2, 7, if ctx.quick() { 16 } else { 255 }];
    let slow = C::NAME == "ed448";
    if rep == 0 && (!slow || src == "chacha" || !ctx.quick()) {
        ks.extend([127u8, 128, 255]);
    } else if rep == 1 && !ctx.quick() {
        ks.extend([63u8, 64, 129, 200, 254]);
    }
    for k in ks {
        let mut rng = make_rng(ctx, src, rep + k as usize);
        let (ns, cs) = round1::preprocess::<C, _>(k, &share, &mut rng);
        if ns.len() != k as usize || cs.len() != k as usize {
            ctx.viol("preprocess-count", "", json!({"k": k, "nonces": ns.len(), "commitments": cs.len()}));
        }
        if rng.total() != 64 * k as usize {
            ctx.viol("random-bytes-consumed", "preprocess", json!({"k": k, "consumed": rng.total(), "expected": 64 * k as usize, "source": src}));
        }
        let stream = rng.stream.clone();
        let mut local = Seen { map: BTreeMap::new(), rev: BTreeMap::new() };
        for j in 0..ns.len() {
            check_pair::<C>(ctx, &mut local, &share, &stream, j, &ns[j], &cs[j], &format!("preprocess({k})"), false);
        }
        // k independent pairs: under a non-repeating source all 2k nonces are pairwise distinct
        if src == "chacha" {
            let mut all: Vec<Vec<u8>> = ns.iter().flat_map(|n| [sc_bytes::<C>(&n.hiding().to_scalar()), sc_bytes::<C>(&n.binding().to_scalar())]).collect();
            all.sort();
            let before = all.len();
            all.dedup();
            if all.len() != before {
                ctx.viol("nonce-reuse", "within-preprocess", json!({"k": k, "distinct": all.len(), "expected": before, "source": src}));
            }
        }
        ctx.class(format!("preprocess/{share_kind}/{src}/k={k}"));
    }

    // SigningNonces::new and Nonce::new directly
    let mut rng = make_rng(ctx, src, rep);
    let nn = SigningNonces::<C>::new(&share, &mut rng);
    let cc = SigningCommitments::from(&nn);
    let stream = rng.stream.clone();
    check_pair::<C>(ctx, &mut seen, &share, &stream, 0, &nn, &cc, "SigningNonces::new", false);
    let before = rng.total();
    let single = Nonce::<C>::new(&share, &mut rng);
    if rng.total() - before != 32 {
        ctx.viol("random-bytes-consumed", "Nonce::new", json!({"consumed": rng.total() - before, "expected": 32}));
    } else {
        let r = rng.stream[before..before + 32].to_vec();
        if single.to_scalar() != C::H3(&[&r[..], &share.serialize()[..]].concat()) {
            ctx.viol("nonce-derivation", "Nonce::new", json!({"share": hex::encode(share.serialize())}));
        }
    }
    ctx.class(format!("direct/{share_kind}/{src}"));

    // the share is mixed in: same bytes, other share -> other nonces; same bytes, same share -> same nonces
    let mut r1 = make_rng(ctx, src, rep);
    let mut r2 = make_rng(ctx, src, rep);
    let mut r3 = make_rng(ctx, src, rep);
    let (a, _) = C::api_commit(&share, &mut r1);
    let (b, _) = C::api_commit(&other, &mut r2);
    let (c, _) = C::api_commit(&share, &mut r3);
    if a.hiding() == b.hiding() || a.binding() == b.binding() {
        ctx.viol("share-not-mixed-in", "", json!({"source": src, "share": hex::encode(share.serialize())}));
    }
    if a != c {
        ctx.viol("nonce-not-a-function-of-inputs", "replay", json!({"source": src}));
    }
    // interleaved signers sharing one source: each call consumes the next 64 bytes
    let mut rng = make_rng(ctx, src, rep);
    let shares = [share, other, share];
    for (j, s) in shares.iter().enumerate() {
        let (nn, cc) = C::api_commit(s, &mut rng);
        let stream = rng.stream.clone();
        let mut local = Seen { map: BTreeMap::new(), rev: BTreeMap::new() };
        check_pair::<C>(ctx, &mut local, s, &stream, j, &nn, &cc, "interleaved", false);
    }
    ctx.class(format!("interleaved/{share_kind}/{src}"));
    if ctx.samples.is_empty() {
        ctx.sample(json!({"share": share_kind, "source": src, "first_64_bytes_drawn": hex::encode(&stream[..64.min(stream.len())]),
            "checked": "bytes consumed per call, H3(bytes||share) for hiding and binding, commitments == G*nonce, injectivity over all observed (bytes, share) pairs"}));
    }
}
