//! C03 — fewer than the threshold of key holders can neither sign nor recover the key.

use std::collections::BTreeMap;

use frost_core::keys::{KeyPackage, PublicKeyPackage};
use frost_core::{CheaterDetection, Identifier, SigningPackage};
use frost_rerandomized::RandomizedParams;
use serde_json::json;

use crate::alg::*;
use crate::gen_::*;
use crate::proto::*;
use crate::suite::indep_verify;
use crate::{Ctx, Suite};

fn modes() -> [(CheaterDetection, &'static str); 3] {
    [
        (CheaterDetection::FirstCheater, "first"),
        (CheaterDetection::AllCheaters, "all"),
        (CheaterDetection::Disabled, "disabled"),
    ]
}

pub fn run<C: Suite>(ctx: &mut Ctx) {
    let slow = C::NAME == "ed448";
    let max_n: u16 = match (ctx.quick(), slow) {
        (true, true) => 5,
        (true, false) => 6,
        (false, true) => 7,
        (false, false) => 10,
    };
    let cap = ctx.scale(if slow { 4 } else { 8 }, if slow { 30 } else { 200 });
    for (n, t) in shapes(max_n) {
        for (source, kind) in [("dealer", "default"), ("dealer", "sparse-u16"), ("dealer", "big-scalar"), ("dkg", "derived"), ("dkg", "default")] {
            if source == "dkg" && n > ctx.scale(4, 6) {
                continue;
            }
            if !ctx.item(&format!("n={n} t={t} keys={source} ids={kind}")) {
                continue;
            }
            ctx.guard(|ctx| item::<C>(ctx, n, t, source, kind, cap));
        }
    }
}

fn item<C: Suite>(ctx: &mut Ctx, n: u16, t: u16, source: &str, kind: &str, cap: usize) {
    let mut rng = ctx.rng("keys");
    let mut p = ctx.pick("choices");
    let ids = identifiers::<C>(kind, n as usize, &mut p);
    let idl = if kind == "default" { None } else { Some(&ids[..]) };
    let secret = sc_from_be_bytes_mod::<C>(&p.bytes(64));
    let grp = match source {
        "dealer" => dealer_group::<C>(n, t, idl, Some(secret), &mut rng),
        _ => dkg_group::<C>(n, t, &ids, &mut rng).map(|x| x.0),
    };
    let grp = match grp {
        Ok(g) => g,
        Err(e) => return ctx.viol("honest-keygen-failed", source, json!({"n": n, "t": t, "err": format!("{e:?}")})),
    };
    let vk = *grp.pkp.verifying_key();
    let vk_el = vk.to_element();
    let vkb = vk.serialize().unwrap();
    let xs: Vec<Sc<C>> = grp.ids.iter().map(id_sc::<C>).collect();
    let ys: Vec<Sc<C>> = grp.ids.iter().map(|i| grp.kps[i].signing_share().to_scalar()).collect();
    let msgs = [vec![], b"threshold test message".to_vec(), p.bytes(200)];

    // (e) degree of the sharing polynomial: every share lies on the polynomial through t shares
    //     (degree <= t-1) and no (t-1)-subset predicts a further share or the secret (degree >= t-1).
    let tt = t as usize;
    for sub in subsets(n as usize, tt, cap.min(20), &mut p) {
        let sx: Vec<_> = sub.iter().map(|i| xs[*i]).collect();
        let sy: Vec<_> = sub.iter().map(|i| ys[*i]).collect();
        let k0 = interpolate_at::<C>(&sx, &sy, zero::<C>()).unwrap();
        if g::<C>() * k0 != vk_el {
            ctx.viol("polynomial-degree", "t-shares-do-not-interpolate-to-key", json!({"n": n, "t": t, "subset": sub}));
        }
        for j in 0..n as usize {
            if !sub.contains(&j) && interpolate_at::<C>(&sx, &sy, xs[j]).unwrap() != ys[j] {
                ctx.viol("polynomial-degree", "share-off-polynomial", json!({"n": n, "t": t, "subset": sub, "j": j}));
            }
        }
        ctx.count("degree_upper_checks");
    }
    for k in 1..tt {
        for sub in subsets(n as usize, k, cap, &mut p) {
            let sx: Vec<_> = sub.iter().map(|i| xs[*i]).collect();
            let sy: Vec<_> = sub.iter().map(|i| ys[*i]).collect();
            // (e) fewer than t shares must not interpolate to the key
            let k0 = interpolate_at::<C>(&sx, &sy, zero::<C>()).unwrap();
            if g::<C>() * k0 == vk_el {
                ctx.viol("sub-threshold-recovers-key", "interpolation", json!({"n": n, "t": t, "k": k, "subset": sub}));
            }
            if k == tt - 1 {
                // ... nor predict another holder's share (leading coefficient is non-zero)
                for j in 0..n as usize {
                    if !sub.contains(&j) && interpolate_at::<C>(&sx, &sy, xs[j]).unwrap() == ys[j] {
                        ctx.viol("polynomial-degree", "degree-below-t-1", json!({"n": n, "t": t, "subset": sub, "j": j}));
                    }
                }
            }
            ctx.count("sub_threshold_interpolations");
            let holders = pick_ids(&grp.ids, &sub);
            let msg = &msgs[(k + sub[0]) % 3];
            sub_threshold::<C>(ctx, &grp, &holders, msg, &vkb, &mut rng, n, t);
            ctx.class(format!("n={n}/t={t}/k={k}/{source}/{kind}"));
            ctx.count("sub_threshold_sets");
        }
    }
    if ctx.samples.is_empty() {
        ctx.sample(json!({"n": n, "t": t, "keys": source, "ids": kind,
            "checked": "every subset of size 1..t-1: sign/aggregate refuse with honest thresholds; with lowered or absent thresholds no signature is released in any detection mode and (R, sum z) does not verify; reconstruct refuses / yields another key"}));
    }
}

#[allow(clippy::too_many_arguments)]
fn sub_threshold<C: Suite>(
    ctx: &mut Ctx,
    grp: &Grp<C>,
    holders: &[Identifier<C>],
    msg: &[u8],
    vkb: &[u8],
    rng: &mut crate::rng::TraceRng,
    n: u16,
    t: u16,
) {
    let k = holders.len();
    let d = |what: &str| json!({"what": what, "n": n, "t": t, "k": k, "holders": holders.iter().map(id_hex::<C>).collect::<Vec<_>>()});
    let vk = *grp.pkp.verifying_key();
    let (nonces, comms) = commit_all(grp, holders, rng);
    let pkg = SigningPackage::new(comms.clone(), msg);

    // (a) honest signer refuses a package with fewer than t commitments
    for id in holders {
        match C::api_sign(&pkg, &nonces[id], &grp.kps[id]) {
            Err(e) => ctx.count(&format!("sign_refused/{}", err_name(&e))),
            Ok(_) => ctx.viol("signer-accepts-sub-threshold-package", "", d("sign returned Ok for <t commitments")),
        }
        for (vname, r) in C::api_sign_variants(&pkg, &nonces[id], &grp.kps[id]) {
            match r {
                Err(e) => ctx.count(&format!("sign_refused/{vname}/{}", err_name(&e))),
                Ok(_) => ctx.viol("signer-accepts-sub-threshold-package", vname, d("the crate's further signing entry point returned Ok for <t commitments")),
            }
        }
    }
    // (a') the signer's key package after a trip through storage that lost a field: whatever still decodes with the
    // holder's identifier and share must refuse exactly like the original (a missing threshold is not a licence to sign)
    if k == 1 || ctx.cur_item % 3 == 0 {
        use crate::wire::Wire;
        let id = &holders[0];
        if let Ok(js) = <KeyPackage<C> as Wire<C>>::to_json(&grp.kps[id]) {
            if let Ok(serde_json::Value::Object(obj)) = serde_json::from_str::<serde_json::Value>(&js) {
                for key in obj.keys() {
                    let mut o2 = obj.clone();
                    o2.remove(key);
                    let txt = serde_json::Value::Object(o2).to_string();
                    ctx.count("degraded_key_packages_tried");
                    let Ok(kp2) = <KeyPackage<C> as Wire<C>>::from_json(&txt) else { continue };
                    ctx.count("degraded_key_packages_decoded");
                    if kp2.identifier() != grp.kps[id].identifier() || kp2.signing_share() != grp.kps[id].signing_share() {
                        continue;
                    }
                    if C::api_sign(&pkg, &nonces[id], &kp2).is_ok() {
                        ctx.viol("signer-accepts-sub-threshold-package", &format!("stored-without-{key}"), d("a key package decoded from JSON lacking one field signs a package with <t commitments"));
                    }
                }
            }
        }
    }
    // (d) reconstruct with honest thresholds refuses
    let honest_kps: Vec<KeyPackage<C>> = holders.iter().map(|i| grp.kps[i].clone()).collect();
    match C::api_reconstruct(&honest_kps) {
        Err(e) => ctx.count(&format!("reconstruct_refused/{}", err_name(&e))),
        Ok(key) => {
            ctx.viol("reconstruct-accepts-sub-threshold", "", d("reconstruct returned Ok for <t honest packages"));
            if g::<C>() * key.to_scalar() == vk.to_element() {
                ctx.viol("sub-threshold-recovers-key", "reconstruct-honest", d("and it is the group key"));
            }
        }
    }

    // (c) everybody lies about the threshold
    let lying: BTreeMap<Identifier<C>, KeyPackage<C>> = holders
        .iter()
        .map(|i| {
            let kp = &grp.kps[i];
            (*i, KeyPackage::new(*i, *kp.signing_share(), *kp.verifying_share(), *kp.verifying_key(), k as u16))
        })
        .collect();
    let lying_vec: Vec<_> = lying.values().cloned().collect();
    match C::api_reconstruct(&lying_vec) {
        Ok(key) => {
            if g::<C>() * key.to_scalar() == vk.to_element() {
                ctx.viol("sub-threshold-recovers-key", "reconstruct-lowered", d("reconstruct of <t lowered packages returned the group key"));
            }
            ctx.count("reconstruct_lowered_other_key");
        }
        Err(e) => ctx.count(&format!("reconstruct_lowered_err/{}", err_name(&e))),
    }
    let mut shares = BTreeMap::new();
    for id in holders {
        match C::api_sign(&pkg, &nonces[id], &lying[id]) {
            Ok(s) => {
                shares.insert(*id, s);
            }
            Err(e) => {
                ctx.count(&format!("lying_sign_err/{}", err_name(&e)));
                return;
            }
        }
    }
    // (b) honest coordinator refuses fewer than t shares
    for (mode, mname) in modes() {
        match frost_core::aggregate_custom(&pkg, &shares, &grp.pkp, mode) {
            Err(e) => {
                ctx.count(&format!("aggregate_refused/{mname}/{}", err_name(&e)));
                // a refusal on the share count comes before any verification: a signature-verification error here means
                // the coordinator went on to aggregate fewer than threshold-many shares
                if matches!(e, frost_core::Error::InvalidSignature | frost_core::Error::InvalidSignatureShare { .. }) {
                    ctx.viol("coordinator-threshold-check-bypassed", mname, d("aggregate of <t shares under the honest public key package failed only at signature verification"));
                }
            }
            Ok(_) => ctx.viol("coordinator-accepts-sub-threshold", mname, d("aggregate returned Ok for <t shares with honest public key package")),
        }
    }
    // (b') the same refusal through every aggregation entry point of the ciphersuite crate itself
    let mut crate_entries = vec![("aggregate", C::api_aggregate(&pkg, &shares, &grp.pkp))];
    crate_entries.extend(C::api_aggregate_variants(&pkg, &shares, &grp.pkp));
    for (vname, r) in crate_entries {
        match r {
            Err(e) => {
                ctx.count(&format!("aggregate_refused/crate/{vname}/{}", err_name(&e)));
                if matches!(e, frost_core::Error::InvalidSignature | frost_core::Error::InvalidSignatureShare { .. }) {
                    ctx.viol("coordinator-threshold-check-bypassed", &format!("crate/{vname}"), d("the crate's aggregation entry point, given <t shares and the honest public key package, failed only at signature verification"));
                }
            }
            Ok(_) => ctx.viol("coordinator-accepts-sub-threshold", &format!("crate/{vname}"), d("the crate's aggregation entry point returned Ok for <t shares with honest public key package")),
        }
    }
    // lying coordinator: thresholds lowered / absent, full and restricted verifying-share maps
    let restricted: BTreeMap<_, _> = holders.iter().map(|i| (*i, grp.pkp.verifying_shares()[i])).collect();
    let variants = [
        ("lowered", PublicKeyPackage::new(grp.pkp.verifying_shares().clone(), vk, Some(k as u16))),
        ("none", PublicKeyPackage::new(grp.pkp.verifying_shares().clone(), vk, None)),
        ("restricted-none", PublicKeyPackage::new(restricted, vk, None)),
    ];
    for (vname, pkp) in &variants {
        for (mode, mname) in modes() {
            match frost_core::aggregate_custom(&pkg, &shares, pkp, mode) {
                Err(e) => ctx.count(&format!("lying_aggregate_err/{mname}/{}", err_name(&e))),
                Ok(sig) => {
                    let mut dd = d("aggregate released a signature made by fewer than t holders");
                    dd["pkp"] = json!(vname);
                    dd["sig"] = json!(sig.serialize().map(hex::encode).unwrap_or_default());
                    ctx.viol("sub-threshold-signature", mname, dd);
                }
            }
        }
    }
    // whatever (R, sum z) they can assemble must not verify under the group key
    if let Ok(bfl) = frost_core::compute_binding_factor_list(&pkg, &vk, &[]) {
        if let Ok(gc) = frost_core::compute_group_commitment(&pkg, &bfl) {
            let mut z = zero::<C>();
            for s in shares.values() {
                z = z + s.share().0;
            }
            let r = gc.to_element();
            let cand: Vec<Vec<u8>> = if C::TAPROOT {
                match el_bytes::<C>(&r) {
                    Some(rb) => vec![[&rb[1..], &sc_bytes::<C>(&z)[..]].concat(), [&rb[1..], &sc_bytes::<C>(&neg::<C>(z))[..]].concat()],
                    None => vec![],
                }
            } else {
                match el_bytes::<C>(&r) {
                    Some(rb) => vec![[&rb[..], &sc_bytes::<C>(&z)[..]].concat()],
                    None => vec![],
                }
            };
            for sb in cand {
                ctx.count("assembled_candidates_judged");
                if indep_verify::<C>(vkb, msg, &sb) {
                    ctx.viol("sub-threshold-signature", "assembled", d("(R, sum z) from <t holders verifies under the group key"));
                }
            }
        }
    }
    // the same through frost-rerandomized
    let mut r2 = rng.clone();
    if let Ok((params, seed)) = RandomizedParams::<C>::new_from_commitments(&vk, &comms, &mut r2) {
        let mut rshares = BTreeMap::new();
        for id in holders {
            match frost_rerandomized::sign_with_randomizer_seed(&pkg, &nonces[id], &grp.kps[id], &seed) {
                Err(e) => ctx.count(&format!("rerand_sign_refused/{}", err_name(&e))),
                Ok(_) => ctx.viol("signer-accepts-sub-threshold-package", "rerandomized", d("randomized sign Ok for <t commitments")),
            }
            if let Ok(s) = frost_rerandomized::sign_with_randomizer_seed(&pkg, &nonces[id], &lying[id], &seed) {
                rshares.insert(*id, s);
            }
        }
        if rshares.len() == holders.len() {
            for (vname, pkp) in [("honest", &grp.pkp), ("lowered", &variants[0].1), ("none", &variants[1].1)] {
                for (mode, mname) in modes() {
                    match frost_rerandomized::aggregate_custom(&pkg, &rshares, pkp, mode, &params) {
                        Err(e) => {
                            ctx.count(&format!("rerand_aggregate_err/{mname}/{}", err_name(&e)));
                            if vname == "honest" && matches!(e, frost_core::Error::InvalidSignature | frost_core::Error::InvalidSignatureShare { .. }) {
                                ctx.viol("coordinator-threshold-check-bypassed", &format!("rerandomized-{mname}"), d("randomized aggregate of <t shares under the honest public key package failed only at signature verification"));
                            }
                        }
                        Ok(_) => ctx.viol("sub-threshold-signature", &format!("rerandomized-{vname}-{mname}"), d("randomized aggregate released a signature for <t holders")),
                    }
                }
            }
        }
    }
}
