//! C19 — batch verification accepts exactly the batches whose every item verifies.

use frost_core::{Signature, SigningKey, VerifyingKey, batch};
use serde_json::json;

use crate::alg::*;
use crate::proto::*;
use crate::rng::TraceRng;
use crate::suite::indep_verify;
use crate::{Ctx, Suite};

#[derive(Clone)]
struct It<C: Suite> {
    vk: VerifyingKey<C>,
    sig: Signature<C>,
    msg: Vec<u8>,
    valid: bool,
    tag: String,
}

pub fn run<C: Suite>(ctx: &mut Ctx) {
    let slow = C::NAME == "ed448";
    let sizes: Vec<usize> = match (ctx.quick(), slow) {
        (true, true) => vec![0, 1, 2, 3, 5, 8, 33],
        // 31..33 and 63..65 items: 2n+1 points cross 64 / 128, where a multiscalar multiplication may change strategy
        (true, false) => (0..=16).chain([31, 32, 33, 64]).collect(),
        (false, true) => vec![0, 1, 2, 3, 4, 5, 8, 13, 16, 24, 32, 33, 64, 65],
        (false, false) => (0..=66).chain([127, 128, 129, 200]).collect(),
    };
    for n in sizes {
        if !ctx.item(&format!("batch size {n}")) {
            continue;
        }
        ctx.guard(|ctx| item::<C>(ctx, n));
    }
}

fn make_items<C: Suite>(ctx: &Ctx, n: usize, rng: &mut TraceRng) -> Vec<It<C>> {
    let mut p = ctx.pick("items");
    let mut out = vec![];
    let grp = dealer_group::<C>(3, 2, None, None, rng).ok();
    while out.len() < n {
        let i = out.len();
        let msg = match i % 4 {
            0 => vec![],
            1 => p.bytes(32),
            2 => p.bytes(7),
            _ => p.bytes(200),
        };
        if i % 3 == 2 {
            if let Some(g) = &grp {
                // a FROST group signature
                let signers = &g.ids[(i / 3) % 2..(i / 3) % 2 + 2];
                if let Ok(sess) = sign_session(g, signers, &msg, rng) {
                    if let Ok(sig) = C::api_aggregate(&sess.pkg, &sess.shares, &g.pkp) {
                        out.push(It { vk: *g.pkp.verifying_key(), sig, msg, valid: true, tag: format!("frost/P{}", parity_tag::<C>(&g.pkp.verifying_key().to_element())) });
                        continue;
                    }
                }
            }
        }
        let k = SigningKey::<C>::new(rng);
        let vk = VerifyingKey::<C>::from(&k);
        let sig = k.sign(&mut *rng, &msg);
        out.push(It { vk, sig, msg, valid: true, tag: format!("single/P{}", parity_tag::<C>(&vk.to_element())) });
    }
    out
}

fn batch_verdict<C: Suite>(items: &[It<C>], rng: &mut TraceRng) -> Result<bool, String> {
    let mut v = batch::Verifier::<C>::new();
    for it in items {
        v.queue(batch::Item::<C>::new(it.vk, it.sig, &it.msg).map_err(|e| format!("{e:?}"))?);
    }
    Ok(v.verify(rng).is_ok())
}

fn judge<C: Suite>(ctx: &mut Ctx, items: &[It<C>], what: &str, detail: serde_json::Value) {
    let want = !items.is_empty() && items.iter().all(|i| i.valid);
    for s in 0..3u8 {
        let mut vr = ctx.rng(&format!("verifier-{s}-{what}-{}", ctx.counts.get("batches").copied().unwrap_or(0)));
        match batch_verdict::<C>(items, &mut vr) {
            Ok(got) => {
                if got != want {
                    ctx.viol("batch-verdict", if got { "accepts-invalid" } else { "rejects-valid" }, json!({"what": what, "size": items.len(), "detail": detail,
                        "tags": items.iter().map(|i| format!("{}:{}", i.tag, i.valid)).collect::<Vec<_>>()}));
                }
            }
            Err(e) => {
                if want {
                    ctx.viol("batch-verdict", "item-construction-failed", json!({"what": what, "err": e}));
                }
            }
        }
        ctx.count("batch_verifications");
    }
    ctx.count("batches");
}

fn check_single<C: Suite>(ctx: &mut Ctx, it: &It<C>) {
    let vkb = it.vk.serialize().unwrap();
    let sb = it.sig.serialize().unwrap_or_default();
    let lib = it.vk.verify(&it.msg, &it.sig).is_ok();
    let ind = indep_verify::<C>(&vkb, &it.msg, &sb);
    let single = batch::Item::<C>::new(it.vk, it.sig, &it.msg).map(|i| i.verify_single().is_ok()).unwrap_or(false);
    if lib != it.valid || ind != it.valid || single != it.valid {
        ctx.viol("single-item-verification", "", json!({"tag": it.tag, "expected": it.valid, "VerifyingKey::verify": lib, "independent": ind, "Item::verify_single": single,
            "vk": hex::encode(&vkb), "sig": hex::encode(&sb), "msg": hex::encode(&it.msg)}));
    }
    ctx.count("single_item_verdicts");
}

fn item<C: Suite>(ctx: &mut Ctx, n: usize) {
    let mut rng = ctx.rng("signers");
    let mut p = ctx.pick("choices");
    let items = make_items::<C>(ctx, n, &mut rng);
    for it in &items {
        check_single::<C>(ctx, it);
    }
    // all valid (the empty batch must be rejected)
    judge::<C>(ctx, &items, "all-valid", json!({}));
    ctx.class(format!("size={n}/all-valid"));
    if n == 0 {
        return;
    }
    // one invalid item at every position x every kind
    let positions: Vec<usize> = if n <= 16 || !ctx.quick() { (0..n).collect() } else { vec![0, n / 2, n - 1] };
    for &pos in &positions {
        for kind in ["wrong-message", "wrong-key", "z+delta", "R+Delta", "swapped-signature", "negated-z", "R-negated", "z=0", "z=1", "R=G", "R=key"] {
            let mut b = items.clone();
            let it = &mut b[pos];
            match kind {
                "wrong-message" => it.msg.push(1),
                "wrong-key" => it.vk = VerifyingKey::<C>::new(it.vk.to_element() + g::<C>()),
                "z+delta" => it.sig = Signature::<C>::new(*it.sig.R(), *it.sig.z() + one::<C>()),
                "R+Delta" => it.sig = Signature::<C>::new(*it.sig.R() + g::<C>(), *it.sig.z()),
                "negated-z" => it.sig = Signature::<C>::new(*it.sig.R(), neg::<C>(*it.sig.z())),
                // special values: a term that vanishes from the combined equation must not take the item with it
                "z=0" => it.sig = Signature::<C>::new(*it.sig.R(), zero::<C>()),
                "z=1" => it.sig = Signature::<C>::new(*it.sig.R(), one::<C>()),
                "R=G" => it.sig = Signature::<C>::new(g::<C>(), *it.sig.z()),
                "R=key" => it.sig = Signature::<C>::new(it.vk.to_element(), *it.sig.z()),
                "R-negated" => {
                    if C::TAPROOT {
                        continue; // x-only encodings identify R and -R: not an alteration for BIP-340
                    }
                    it.sig = Signature::<C>::new(ident::<C>() - *it.sig.R(), *it.sig.z())
                }
                _ => {
                    if n < 2 {
                        continue;
                    }
                    let o = (pos + 1) % n;
                    let s = items[o].sig;
                    b[pos].sig = s;
                }
            }
            b[pos].valid = false;
            b[pos].tag = format!("{}/{kind}", b[pos].tag);
            if pos == positions[0] {
                check_single::<C>(ctx, &b[pos]);
            }
            judge::<C>(ctx, &b, kind, json!({"position": pos}));
            ctx.class(format!("size={n}/{kind}"));
        }
    }
    // complementary pairs and triples: errors that cancel when blinders are reused
    if n >= 2 {
        let mut pairs: Vec<(usize, usize)> = vec![];
        for a in 0..n {
            for b2 in 0..n {
                if a != b2 {
                    pairs.push((a, b2));
                }
            }
        }
        p.shuffle(&mut pairs);
        let cap = ctx.scale(if C::NAME == "ed448" { 40 } else { 120 }, 500);
        for &(a, b2) in pairs.iter().take(cap) {
            let dl = sc_from_be_bytes_mod::<C>(&p.bytes(40)) + one::<C>();
            let mut b = items.clone();
            b[a].sig = Signature::<C>::new(*b[a].sig.R(), *b[a].sig.z() + dl);
            b[b2].sig = Signature::<C>::new(*b[b2].sig.R(), *b[b2].sig.z() - dl);
            b[a].valid = false;
            b[b2].valid = false;
            judge::<C>(ctx, &b, "complementary-pair", json!({"positions": [a, b2]}));
            ctx.count("complementary_batches");
        }
        ctx.class(format!("size={n}/complementary-pair"));
        if n >= 3 {
            for _ in 0..ctx.scale(10, 100) {
                let tri = p.subset(n, 3);
                let d1 = sc_from_be_bytes_mod::<C>(&p.bytes(40)) + one::<C>();
                let d2 = sc_from_be_bytes_mod::<C>(&p.bytes(40)) + one::<C>();
                let mut b = items.clone();
                b[tri[0]].sig = Signature::<C>::new(*b[tri[0]].sig.R(), *b[tri[0]].sig.z() + d1);
                b[tri[1]].sig = Signature::<C>::new(*b[tri[1]].sig.R(), *b[tri[1]].sig.z() + d2);
                b[tri[2]].sig = Signature::<C>::new(*b[tri[2]].sig.R(), *b[tri[2]].sig.z() - d1 - d2);
                for t in &tri {
                    b[*t].valid = false;
                }
                judge::<C>(ctx, &b, "complementary-triple", json!({"positions": tri}));
                ctx.count("complementary_batches");
            }
            ctx.class(format!("size={n}/complementary-triple"));
        }
        // control (not a verdict): under a *constant* verifier source the blinders coincide and a
        // complementary pair is accepted — shows the workload would expose reused blinders.
        let dl = sc_u64::<C>(12345);
        let mut b = items.clone();
        b[0].sig = Signature::<C>::new(*b[0].sig.R(), *b[0].sig.z() + dl);
        b[1].sig = Signature::<C>::new(*b[1].sig.R(), *b[1].sig.z() - dl);
        let mut cr = TraceRng::constant(0x2a);
        if let Ok(acc) = batch_verdict::<C>(&b, &mut cr) {
            ctx.count(if acc { "control_constant_rng_accepts_pair" } else { "control_constant_rng_rejects_pair" });
        }
    }
    // repeated items and one key many messages
    if n >= 2 {
        let mut b = items.clone();
        b[1] = b[0].clone();
        judge::<C>(ctx, &b, "duplicate-item", json!({}));
        let mut b = items.clone();
        let mut bad = b[0].clone();
        bad.msg.push(9);
        bad.valid = false;
        b.push(bad);
        judge::<C>(ctx, &b, "appended-invalid-duplicate", json!({}));
        ctx.class(format!("size={n}/duplicates"));
    }
    // a run of consecutive items under one key (one signer, several messages): every item still needs its own blinder
    if n >= 1 {
        let key = SigningKey::<C>::new(&mut rng);
        let vk = VerifyingKey::<C>::from(&key);
        let rl = 2 + n % 3;
        let run: Vec<It<C>> = (0..rl)
            .map(|j| {
                let msg = p.bytes(5 + 20 * j);
                let sig = key.sign(&mut rng, &msg);
                It { vk, sig, msg, valid: true, tag: format!("same-key-run/{j}") }
            })
            .collect();
        for at in [0usize, n / 2, n] {
            let with_run = |run: &[It<C>]| -> Vec<It<C>> { [&items[..at], run, &items[at..]].concat() };
            judge::<C>(ctx, &with_run(&run), "same-key-run/all-valid", json!({"at": at, "run": rl}));
            for (a, b2) in [(0usize, 1usize), (1, 0), (0, rl - 1), (rl - 1, 0)] {
                if a == b2 {
                    continue;
                }
                let dl = sc_from_be_bytes_mod::<C>(&p.bytes(40)) + one::<C>();
                let mut r2 = run.clone();
                r2[a].sig = Signature::<C>::new(*r2[a].sig.R(), *r2[a].sig.z() + dl);
                r2[b2].sig = Signature::<C>::new(*r2[b2].sig.R(), *r2[b2].sig.z() - dl);
                r2[a].valid = false;
                r2[b2].valid = false;
                judge::<C>(ctx, &with_run(&r2), "same-key-run/complementary-pair", json!({"at": at, "run": rl, "positions": [a, b2]}));
                ctx.count("complementary_batches");
            }
            for j in 0..rl {
                let mut r2 = run.clone();
                r2[j].sig = Signature::<C>::new(*r2[j].sig.R(), *r2[j].sig.z() + one::<C>());
                r2[j].valid = false;
                judge::<C>(ctx, &with_run(&r2), "same-key-run/one-invalid", json!({"at": at, "run": rl, "position": j}));
                // signatures exchanged inside the run: each is valid for the *other* message only
                if j + 1 < rl {
                    let mut r3 = run.clone();
                    let (s0, s1) = (r3[j].sig, r3[j + 1].sig);
                    r3[j].sig = s1;
                    r3[j + 1].sig = s0;
                    r3[j].valid = false;
                    r3[j + 1].valid = false;
                    judge::<C>(ctx, &with_run(&r3), "same-key-run/exchanged-signatures", json!({"at": at, "run": rl, "position": j}));
                }
            }
        }
        ctx.class(format!("size={n}/same-key-run"));
    }
    if ctx.samples.is_empty() && n >= 3 {
        ctx.sample(json!({"size": n, "item_kinds": items.iter().map(|i| i.tag.clone()).collect::<Vec<_>>(),
            "explored": "all-valid; one invalid item at every position x 11 kinds; complementary pairs/triples; duplicates; each under 3 verifier random streams"}));
    }
}
