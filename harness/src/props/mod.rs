//! One module per property; each exposes `run::<C>(ctx)`.
use crate::{Ctx, Suite};

pub mod c01;
pub mod c02;
pub mod c03;
pub mod c04;
pub mod c05;
pub mod c06;
pub mod c07;
pub mod c08;
pub mod c09;
pub mod c10;
pub mod c11;
pub mod c12;
pub mod c13;
pub mod c14;
pub mod c15;
pub mod c16;
pub mod c17;
pub mod c18;
pub mod c19;
pub mod c20;

pub fn run<C: Suite>(ctx: &mut Ctx) {
    match ctx.prop.clone().as_str() {
        "C01" => c01::run::<C>(ctx),
        "C02" => c02::run::<C>(ctx),
        "C03" => c03::run::<C>(ctx),
        "C04" => c04::run::<C>(ctx),
        "C05" => c05::run::<C>(ctx),
        "C06" => c06::run::<C>(ctx),
        "C07" => c07::run::<C>(ctx),
        "C08" => c08::run::<C>(ctx),
        "C09" => c09::run::<C>(ctx),
        "C10" => c10::run::<C>(ctx),
        "C11" => c11::run::<C>(ctx),
        "C12" => c12::run::<C>(ctx),
        "C13" => c13::run::<C>(ctx),
        "C14" => c14::run::<C>(ctx),
        "C15" => c15::run::<C>(ctx),
        "C16" => c16::run::<C>(ctx),
        "C17" => c17::run::<C>(ctx),
        "C18" => c18::run::<C>(ctx),
        "C19" => c19::run::<C>(ctx),
        p => panic!("unknown property {p}"),
    }
}
