//! One module per property; each exposes `run::<C>(ctx)`.
use crate::{Ctx, Suite};

pub mod c01;

pub fn run<C: Suite>(ctx: &mut Ctx) {
    match ctx.prop.clone().as_str() {
        "C01" => c01::run::<C>(ctx),
        p => panic!("unknown property {p}"),
    }
}
