//! C08 — key generation aborts and names the sender on any malformed peer contribution.
//!
//! Oracle: a fault table (fault -> first consuming step, attributable?) derived from the protocol.
//! Exactly one contribution is faulty; the receiver is honest.

use frost_core::keys::dkg::{self, round1, round2};
use frost_core::keys::{CoefficientCommitment, SigningShare, VerifiableSecretSharingCommitment};
use frost_core::{Error, Identifier, Signature};
use serde_json::json;

use crate::alg::*;
use crate::gen_::*;
use crate::proto::*;
use crate::{Ctx, Suite};

#[derive(Clone, Copy, PartialEq, Debug)]
enum Step {
    Part2,
    Part3,
}

struct Fault<C: Suite> {
    name: String,
    class: String,
    step: Step,
    /// must the error name the slot?
    attributable: bool,
    /// the identifier under which the faulty contribution is filed
    slot: Option<Identifier<C>>,
    r1_for_part2: IdMap<C, round1::Package<C>>,
    r1_for_part3: IdMap<C, round1::Package<C>>,
    r2: IdMap<C, round2::Package<C>>,
}

pub fn run<C: Suite>(ctx: &mut Ctx) {
    let slow = C::NAME == "ed448";
    let shapes_v: Vec<(u16, u16)> = match (ctx.quick(), slow) {
        (true, true) => vec![(2, 2), (3, 2), (3, 3)],
        // (6, 2): the smallest shape with t < n/2
        (true, false) => vec![(2, 2), (3, 2), (3, 3), (4, 2), (4, 3), (4, 4), (5, 3), (5, 5), (6, 2)],
        (false, true) => shapes(5),
        (false, false) => shapes(7),
    };
    for (n, t) in shapes_v {
        for kind in ["default", "sparse-u16", "derived"] {
            if ctx.quick() && slow && kind != "default" && (n + t) % 2 == 0 {
                continue;
            }
            if !ctx.item(&format!("n={n} t={t} ids={kind}")) {
                continue;
            }
            ctx.guard(|ctx| item::<C>(ctx, n, t, kind));
        }
    }
}

fn vss_comm<C: Suite>(els: Vec<El<C>>) -> VerifiableSecretSharingCommitment<C> {
    VerifiableSecretSharingCommitment::<C>::new(els.into_iter().map(CoefficientCommitment::<C>::new).collect())
}
fn comm_els<C: Suite>(p: &round1::Package<C>) -> Vec<El<C>> {
    p.commitment().coefficients().iter().map(|c| c.value()).collect()
}

fn item<C: Suite>(ctx: &mut Ctx, n: u16, t: u16, kind: &str) {
    let mut rng = ctx.rng("dkg");
    let mut p = ctx.pick("choices");
    let mut ids = identifiers::<C>(kind, n as usize + 1, &mut p);
    let outsider = ids.pop().unwrap();
    let (run_a, run_b) = match (dkg_rounds::<C>(n, t, &ids, &mut rng), dkg_rounds::<C>(n, t, &ids, &mut rng)) {
        (Ok(a), Ok(b)) => (a, b),
        _ => return ctx.viol("honest-dkg-failed", "", json!({"n": n, "t": t})),
    };
    let mut sorted = ids.clone();
    sort_ids_numeric::<C>(&mut sorted);
    for me in &sorted {
        let (r1, r2) = dkg_inbox(&run_a, me);
        // control: the unfaulted inputs are accepted
        let ok2 = C::api_dkg_part2(run_a.r1_secret[me].clone(), &r1);
        let ok3 = C::api_dkg_part3(&run_a.r2_secret[me], &r1, &r2);
        if ok2.is_err() || ok3.is_err() {
            ctx.viol("honest-dkg-failed", "control", json!({"n": n, "t": t, "me": id_hex::<C>(me)}));
            continue;
        }
        for sender in &sorted {
            if sender == me {
                continue;
            }
            // the u16-wrapping length: receiver = highest identifier and sender = lowest (its commitment then comes first when
            // the commitments are summed), and the other way round; smallest shapes with default identifiers only
            let wrap_len = kind == "default" && n <= 3 && C::NAME != "ed448" && ((*me == sorted[sorted.len() - 1] && *sender == sorted[0]) || (*me == sorted[0] && *sender == sorted[sorted.len() - 1]));
            let faults = build_faults::<C>(&run_a, &run_b, me, sender, &sorted, outsider, &r1, &r2, t, wrap_len);
            for f in faults {
                judge::<C>(ctx, &run_a, me, sender, &f, n, t);
            }
        }
    }
    if ctx.samples.is_empty() {
        ctx.sample(json!({"n": n, "t": t, "ids": kind, "explored": "every (receiver, sender) pair x every fault kind x every field instance; see class list"}));
    }
}

#[allow(clippy::too_many_arguments)]
fn build_faults<C: Suite>(
    a: &DkgRun<C>,
    b: &DkgRun<C>,
    me: &Identifier<C>,
    sender: &Identifier<C>,
    all: &[Identifier<C>],
    outsider: Identifier<C>,
    r1: &IdMap<C, round1::Package<C>>,
    r2: &IdMap<C, round2::Package<C>>,
    t: u16,
    wrap_len: bool,
) -> Vec<Fault<C>> {
    let mut out = vec![];
    let pkg = &r1[sender];
    let els = comm_els::<C>(pkg);
    let pok = *pkg.proof_of_knowledge();
    let third: Option<Identifier<C>> = all.iter().find(|i| *i != me && *i != sender).copied();
    let mut r1_fault = |name: &str, class: &str, step: Step, attributable: bool, newp: round1::Package<C>, only_part3: bool| {
        let mut m2 = r1.clone();
        let mut m3 = r1.clone();
        if !only_part3 {
            m2.insert(*sender, newp.clone());
        }
        m3.insert(*sender, newp);
        out.push(Fault { name: name.into(), class: class.into(), step, attributable, slot: Some(*sender), r1_for_part2: m2, r1_for_part3: m3, r2: r2.clone() });
    };
    // ---- round-one contribution
    r1_fault("pok-response+1", "pok-response", Step::Part2, true, round1::Package::new(pkg.commitment().clone(), Signature::<C>::new(*pok.R(), *pok.z() + one::<C>())), false);
    r1_fault("pok-commitment+G", "pok-commitment", Step::Part2, true, round1::Package::new(pkg.commitment().clone(), Signature::<C>::new(*pok.R() + g::<C>(), *pok.z())), false);
    {
        let mut e = els.clone();
        e[0] = e[0] + g::<C>();
        r1_fault("constant-term+G", "commitment[0]", Step::Part2, true, round1::Package::new(vss_comm::<C>(e), pok), false);
    }
    for k in 1..els.len() {
        let mut e = els.clone();
        e[k] = e[k] + g::<C>();
        r1_fault(&format!("coefficient[{k}]+G"), "commitment[k>=1]", Step::Part3, true, round1::Package::new(vss_comm::<C>(e), pok), false);
    }
    if let Some(m) = third {
        // a perfectly valid contribution — of somebody else (valid proof for another identifier)
        r1_fault("proof-for-another-identifier", "pok-other-identifier", Step::Part2, true, a.r1_pkgs[&m].clone(), false);
    }
    // the same sender's proof from another run over this run's commitment (valid proof, other commitment)
    r1_fault("proof-for-another-commitment", "pok-other-commitment", Step::Part2, true, round1::Package::new(pkg.commitment().clone(), *b.r1_pkgs[sender].proof_of_knowledge()), false);
    // and this run's proof over the other run's commitment
    r1_fault("commitment-of-another-run", "pok-other-commitment", Step::Part2, true, round1::Package::new(b.r1_pkgs[sender].commitment().clone(), pok), false);
    {
        let mut e = els.clone();
        e.pop();
        if !e.is_empty() {
            r1_fault("commitment-truncated", "commitment-length", Step::Part2, false, round1::Package::new(vss_comm::<C>(e), pok), false);
        }
        let mut e = els.clone();
        e.push(g::<C>() * sc_u64::<C>(7));
        r1_fault("commitment-extended", "commitment-length", Step::Part2, false, round1::Package::new(vss_comm::<C>(e), pok), false);
    }
    // a whole valid contribution of the same sender from another run, presented only at part3
    r1_fault("commitment-swapped-at-part3", "commitment-swapped-at-part3", Step::Part3, true, b.r1_pkgs[sender].clone(), true);
    // a commitment whose length equals the threshold only modulo 2^16 (65536 surplus coefficients, all equal to c*G), with
    // the sender's unchanged - and still valid - proof, and a round-two share consistent with the long polynomial.
    // Costs seconds per verification, so one (receiver, sender) pair per run.
    if wrap_len {
        let c = sc_u64::<C>(3);
        let mut e = els.clone();
        e.resize(els.len() + 65_536, g::<C>() * c);
        // f'(x) = f(x) + c * sum_{k=t}^{t+65535} x^k
        let x = id_sc::<C>(me);
        let mut pw = one::<C>();
        for _ in 0..els.len() {
            pw = pw * x;
        }
        let mut sum = zero::<C>();
        for _ in 0..65_536u32 {
            sum = sum + pw;
            pw = pw * x;
        }
        let mut m2 = r1.clone();
        m2.insert(*sender, round1::Package::new(vss_comm::<C>(e), pok));
        let mut rr = r2.clone();
        rr.insert(*sender, round2::Package::new(SigningShare::<C>::new(r2[sender].signing_share().to_scalar() + c * sum)));
        out.push(Fault { name: "commitment-length-threshold-plus-65536".into(), class: "commitment-length-wraps-u16".into(), step: Step::Part2, attributable: false, slot: Some(*sender), r1_for_part2: m2.clone(), r1_for_part3: m2, r2: rr });
        // (Presenting this contribution at part3 only - part2 having seen the honest one - is *not* a fault of the library:
        // part3 documents that it must be given the round-one packages used in part2, and relies on part2's length check.
        // A variant that did so was tried, produced key material on the unchanged tree, and was removed as a false alarm.)
    }
    // filing faults of round one
    {
        let mut m = r1.clone();
        let pj = m.remove(sender).unwrap();
        m.insert(outsider, pj);
        out.push(Fault { name: "r1-filed-under-unknown-identifier".into(), class: "r1-unknown-identifier".into(), step: Step::Part2, attributable: true, slot: Some(outsider), r1_for_part2: m.clone(), r1_for_part3: m, r2: r2.clone() });
        let mut m = r1.clone();
        let pj = m.remove(sender).unwrap();
        m.insert(*me, pj);
        out.push(Fault { name: "r1-filed-under-own-identifier".into(), class: "r1-own-identifier".into(), step: Step::Part2, attributable: false, slot: None, r1_for_part2: m.clone(), r1_for_part3: m, r2: r2.clone() });
        let mut m = r1.clone();
        m.remove(sender);
        out.push(Fault { name: "r1-missing".into(), class: "r1-missing".into(), step: Step::Part2, attributable: false, slot: None, r1_for_part2: m.clone(), r1_for_part3: m, r2: r2.clone() });
        let mut m = r1.clone();
        m.insert(outsider, r1[sender].clone());
        out.push(Fault { name: "r1-surplus".into(), class: "r1-surplus".into(), step: Step::Part2, attributable: false, slot: None, r1_for_part2: m.clone(), r1_for_part3: m, r2: r2.clone() });
        let mut m = r1.clone();
        m.insert(*me, a.r1_pkgs[me].clone());
        out.push(Fault { name: "r1-own-package-included".into(), class: "r1-own-identifier".into(), step: Step::Part2, attributable: false, slot: None, r1_for_part2: m.clone(), r1_for_part3: m, r2: r2.clone() });
    }
    // ---- round-two contribution
    let mut r2_fault = |name: &str, class: &str, attributable: bool, slot: Option<Identifier<C>>, m: IdMap<C, round2::Package<C>>| {
        out.push(Fault { name: name.into(), class: class.into(), step: Step::Part3, attributable, slot, r1_for_part2: r1.clone(), r1_for_part3: r1.clone(), r2: m });
    };
    let sh = r2[sender].signing_share().to_scalar();
    let with = |s: Sc<C>| {
        let mut m = r2.clone();
        m.insert(*sender, round2::Package::new(SigningShare::<C>::new(s)));
        m
    };
    r2_fault("share+1", "share-altered", true, Some(*sender), with(sh + one::<C>()));
    r2_fault("share-negated", "share-altered", true, Some(*sender), with(neg::<C>(sh)));
    r2_fault("share-zero", "share-altered", true, Some(*sender), with(zero::<C>()));
    if let Some(m3) = third {
        r2_fault("share-for-another-recipient", "share-other-recipient", true, Some(*sender), with(a.r2_pkgs[sender][&m3].signing_share().to_scalar()));
        r2_fault("share-of-another-sender", "share-other-sender", true, Some(*sender), with(r2[&m3].signing_share().to_scalar()));
    }
    r2_fault("share-from-another-run", "share-other-run", true, Some(*sender), with(b.r2_pkgs[sender][me].signing_share().to_scalar()));
    {
        let mut m = r2.clone();
        let pj = m.remove(sender).unwrap();
        m.insert(*me, pj);
        r2_fault("r2-filed-under-own-identifier", "r2-own-identifier", false, None, m);
        let mut m = r2.clone();
        m.remove(sender);
        r2_fault("r2-missing", "r2-missing", false, None, m);
        let mut m = r2.clone();
        m.insert(outsider, r2[sender].clone());
        r2_fault("r2-surplus", "r2-surplus", false, None, m);
        let mut m = r2.clone();
        let pj = m.remove(sender).unwrap();
        m.insert(outsider, pj);
        r2_fault("r2-filed-under-unknown-identifier", "r2-key-sets-differ", false, None, m);
    }
    let _ = t;
    out
}

fn judge<C: Suite>(ctx: &mut Ctx, a: &DkgRun<C>, me: &Identifier<C>, sender: &Identifier<C>, f: &Fault<C>, n: u16, t: u16) {
    let d = |what: &str, extra: serde_json::Value| json!({"what": what, "fault": f.name, "n": n, "t": t, "receiver": id_hex::<C>(me), "sender": id_hex::<C>(sender), "extra": extra});
    let check_err = |ctx: &mut Ctx, e: &Error<C>, step: &str| {
        let cul = e.culprits();
        ctx.count(&format!("{}/{step}/{}", f.class, err_name(e)));
        if let Some(slot) = f.slot {
            if cul.iter().any(|c| *c != slot) {
                ctx.viol("wrong-culprit", &f.class, d("error names someone other than the slot of the faulty contribution", json!({"err": format!("{e:?}"), "slot": id_hex::<C>(&slot)})));
            }
            if f.attributable && cul != vec![slot] {
                ctx.viol("culprit-not-named", &f.class, d("attributable fault, but the error does not name exactly the offending sender", json!({"err": format!("{e:?}"), "slot": id_hex::<C>(&slot)})));
            }
        } else if cul.iter().any(|c| a.r1_pkgs.contains_key(c) && c != sender) {
            ctx.viol("wrong-culprit", &f.class, d("error names an honest participant", json!({"err": format!("{e:?}")})));
        }
    };
    ctx.count("faults_injected");
    ctx.class(format!("{}/n={n}/t={t}", f.class));
    let p2 = C::api_dkg_part2(a.r1_secret[me].clone(), &f.r1_for_part2);
    match (f.step, p2) {
        (Step::Part2, Ok(_)) => {
            ctx.viol("faulty-contribution-accepted", &f.class, d("part2 returned Ok", json!({})));
            // does it at least fail later? (recorded, the verdict above stands)
            if C::api_dkg_part3(&a.r2_secret[me], &f.r1_for_part3, &f.r2).is_ok() {
                ctx.viol("faulty-contribution-accepted", &format!("{}/key-material-produced", f.class), d("part3 returned key material as well", json!({})));
            }
        }
        (Step::Part2, Err(e)) => check_err(ctx, &e, "part2"),
        (Step::Part3, Err(e)) => {
            ctx.viol("honest-step-refused", &f.class, d("part2 refused although the fault is not consumed before part3", json!({"err": format!("{e:?}")})));
        }
        (Step::Part3, Ok((sec2, _out))) => match C::api_dkg_part3(&sec2, &f.r1_for_part3, &f.r2) {
            Ok(_) => ctx.viol("faulty-contribution-accepted", &f.class, d("part3 returned key material", json!({}))),
            Err(e) => check_err(ctx, &e, "part3"),
        },
    }
}
