//! C17 — re-randomized signing verifies only under the session-bound randomized key.

use std::collections::BTreeMap;

use frost_core::round1::{NonceCommitment, SigningCommitments};
use frost_core::{CheaterDetection, Identifier, SigningPackage, VerifyingKey};
use frost_rerandomized::{RandomizedCiphersuite, RandomizedParams, Randomizer};
use serde_json::json;

use crate::alg::*;
use crate::gen_::*;
use crate::props::c04::{Coord, judge_alteration, share_from, share_sc};
use crate::proto::*;
use crate::suite::indep_verify;
use crate::{Ctx, Suite};

pub fn run<C: Suite>(ctx: &mut Ctx) {
    let slow = C::NAME == "ed448";
    let max_n: u16 = match (ctx.quick(), slow) {
        (true, true) => 4,
        (true, false) => 5,
        (false, true) => 6,
        (false, false) => 8,
    };
    for (n, t) in shapes(max_n) {
        for kind in ["default", "sparse-u16", "derived"] {
            for seedk in ["rng", "all-zero", "empty", "1KiB", "explicit-0", "explicit-1", "explicit-random", "explicit-deprecated-new"] {
                if ctx.quick() && kind != "default" && !(seedk == "rng" || seedk == "explicit-0") {
                    continue;
                }
                if !ctx.item(&format!("n={n} t={t} ids={kind} randomizer={seedk}")) {
                    continue;
                }
                ctx.guard(|ctx| item::<C>(ctx, n, t, kind, seedk));
            }
        }
    }
}

fn item<C: Suite>(ctx: &mut Ctx, n: u16, t: u16, kind: &str, seedk: &str) {
    let mut rng = ctx.rng("keys");
    let mut p = ctx.pick("choices");
    let ids = identifiers::<C>(kind, n as usize, &mut p);
    let idl = if kind == "default" { None } else { Some(&ids[..]) };
    let grp = if p.coin() || n > 4 { dealer_group::<C>(n, t, idl, None, &mut rng) } else { dkg_group::<C>(n, t, &ids, &mut rng).map(|x| x.0) };
    let Ok(grp) = grp else { return ctx.viol("honest-keygen-failed", "", json!({})) };
    let vk = *grp.pkp.verifying_key();
    let k = t as usize + p.below((n - t) as usize + 1);
    let sub = p.subset(n as usize, k);
    let signers = pick_ids(&grp.ids, &sub);
    let msg = p.bytes(35);
    let (nonces, comms) = commit_all(&grp, &signers, &mut rng);
    let pkg = SigningPackage::new(comms.clone(), &msg);
    let d = |what: &str, extra: serde_json::Value| json!({"what": what, "n": n, "t": t, "ids": kind, "randomizer": seedk, "signers": signers.iter().map(id_hex::<C>).collect::<Vec<_>>(), "extra": extra});

    // coordinator side
    let explicit = seedk.starts_with("explicit");
    let (params, seed): (RandomizedParams<C>, Vec<u8>) = if seedk == "explicit-deprecated-new" {
        // the older entry point: randomizer bound to the whole signing package, sent to the participants as a value
        #[allow(deprecated)]
        let r = RandomizedParams::<C>::new(&vk, &pkg, &mut rng.clone());
        match r {
            Ok(pr) => {
                // same source output, another package (message changed) => another randomizer
                #[allow(deprecated)]
                if let Ok(p2) = RandomizedParams::<C>::new(&vk, &SigningPackage::new(comms.clone(), b"another message"), &mut rng.clone()) {
                    if p2.randomizer().serialize() == pr.randomizer().serialize() {
                        ctx.viol("randomizer-not-bound", "deprecated-new/message", d("Randomizer::new gives the same randomizer for two different signing packages", json!({})));
                    }
                }
                (pr, vec![])
            }
            Err(e) => return ctx.viol("honest-randomize-failed", "deprecated-new", d("RandomizedParams::new", json!({"err": format!("{e:?}")}))),
        }
    } else if explicit {
        let a = match seedk {
            "explicit-0" => zero::<C>(),
            "explicit-1" => one::<C>(),
            _ => sc_from_be_bytes_mod::<C>(&p.bytes(64)),
        };
        (RandomizedParams::<C>::from_randomizer(&vk, Randomizer::<C>::from_scalar(a)), vec![])
    } else if seedk == "rng" {
        let before = rng.total();
        match RandomizedParams::<C>::new_from_commitments(&vk, &comms, &mut rng) {
            Ok((pr, sd)) => {
                if sd.len() != C::SCALAR_LEN || sd[..] != rng.stream[before..] {
                    ctx.viol("randomizer-seed", "", d("seed is not the scalar-length block drawn from the source", json!({"len": sd.len()})));
                }
                (pr, sd)
            }
            Err(e) => return ctx.viol("honest-randomize-failed", "", d("new_from_commitments", json!({"err": format!("{e:?}")}))),
        }
    } else {
        let sd = match seedk {
            "all-zero" => vec![0u8; C::SCALAR_LEN],
            "empty" => vec![],
            _ => p.bytes(1024),
        };
        match RandomizedParams::<C>::regenerate_from_seed_and_commitments(&vk, &sd, &comms) {
            Ok(pr) => (pr, sd),
            Err(e) => return ctx.viol("honest-randomize-failed", "", d("regenerate", json!({"err": format!("{e:?}")}))),
        }
    };
    let alpha = params.randomizer().serialize();
    let alpha_sc = sc_decode::<C>(&alpha).unwrap();
    if !explicit {
        // participants regenerate the same parameters
        match RandomizedParams::<C>::regenerate_from_seed_and_commitments(&vk, &seed, pkg.signing_commitments()) {
            Ok(p2) => {
                if p2 != params {
                    ctx.viol("regenerated-params-differ", "", d("participant-regenerated RandomizedParams != coordinator's", json!({})));
                }
            }
            Err(e) => ctx.viol("honest-randomize-failed", "regenerate", d("regenerate", json!({"err": format!("{e:?}")}))),
        }
        // randomizer = hash_randomizer(seed || encode_group_commitment_list); the list re-encoded by the harness
        // in numeric identifier order (Python recomputes the hash independently from the event below)
        let mut enc = vec![];
        let mut sorted = signers.clone();
        sort_ids_numeric::<C>(&mut sorted);
        for id in &sorted {
            enc.extend(id.serialize());
            enc.extend(el_bytes::<C>(&comms[id].hiding().value()).unwrap());
            enc.extend(el_bytes::<C>(&comms[id].binding().value()).unwrap());
        }
        let want = <C as RandomizedCiphersuite>::hash_randomizer(&[&seed[..], &enc[..]].concat()).unwrap();
        if want != alpha_sc {
            ctx.viol("randomizer-derivation", "", d("randomizer != hash_randomizer(seed || encoded commitment list)", json!({})));
        }
        ctx.event(json!({"k": "randomizer", "item": ctx.cur_item, "seed": hex::encode(&seed), "commitment_list": hex::encode(&enc), "randomizer": hex::encode(&alpha)}));
        ctx.count("python_samples");
    }
    // the parameters are internally consistent
    if *params.randomizer_element() != g::<C>() * alpha_sc || params.randomized_verifying_key().to_element() != vk.to_element() + g::<C>() * alpha_sc {
        ctx.viol("randomized-params-inconsistent", "", d("randomizer element / randomized key", json!({})));
    }
    // participants sign
    let mut shares = BTreeMap::new();
    for id in &signers {
        #[allow(deprecated)]
        let r = if explicit { frost_rerandomized::sign(&pkg, &nonces[id], &grp.kps[id], *params.randomizer()) } else { frost_rerandomized::sign_with_randomizer_seed(&pkg, &nonces[id], &grp.kps[id], &seed) };
        match r {
            Ok(s) => {
                shares.insert(*id, s);
            }
            Err(e) => return ctx.viol("randomized-sign-failed", "", d("sign", json!({"signer": id_hex::<C>(id), "err": format!("{e:?}")}))),
        }
    }
    let rvk = *params.randomized_verifying_key();
    let rvkb = rvk.serialize().unwrap();
    let vkb = vk.serialize().unwrap();
    match frost_rerandomized::aggregate(&pkg, &shares, &grp.pkp, &params) {
        Ok(sig) => {
            let sb = sig.serialize().unwrap();
            let ok_r = rvk.verify(&msg, &sig).is_ok() && indep_verify::<C>(&rvkb, &msg, &sb) && C::ext_verify(&rvkb, &msg, &sb).unwrap_or(true);
            if !ok_r {
                ctx.viol("randomized-signature-rejected", "", d("signature does not verify under group key + randomizer*G", json!({"sig": hex::encode(&sb), "rvk": hex::encode(&rvkb)})));
            }
            let under_orig = indep_verify::<C>(&vkb, &msg, &sb) || vk.verify(&msg, &sig).is_ok();
            let zero_r = alpha_sc == zero::<C>();
            if under_orig != zero_r {
                ctx.viol("verifies-under-original-key", if under_orig { "accepted" } else { "rejected-with-zero-randomizer" }, d("verification under the original group key", json!({"randomizer_is_zero": zero_r})));
            }
            ctx.event(json!({"k": "sig", "vk": hex::encode(&rvkb), "msg": hex::encode(&msg), "sig": hex::encode(&sb), "item": ctx.cur_item, "tag": "randomized"}));
            ctx.count("sessions_judged");
        }
        Err(e) => return ctx.viol("randomized-aggregate-failed", "", d("aggregate", json!({"err": format!("{e:?}")}))),
    }
    ctx.class(format!("n={n}/t={t}/{kind}/{seedk}/S={k}"));

    if !explicit {
        // the randomizer is a function of the seed and of the exact commitment set
        let base = params.randomizer().serialize();
        let mut variants: Vec<(String, Vec<u8>, IdMap<C, SigningCommitments<C>>)> = vec![];
        let bits: Vec<usize> = if seed.is_empty() { vec![] } else if ctx.quick() { vec![0, 7, seed.len() * 8 - 1, p.below(seed.len() * 8)] } else { (0..seed.len() * 8).step_by(if seed.len() > 64 { 97 } else { 1 }).collect() };
        for b in bits {
            let mut s2 = seed.clone();
            s2[b / 8] ^= 1 << (b % 8);
            variants.push((format!("seed-bit{b}"), s2, comms.clone()));
        }
        let mut s2 = seed.clone();
        s2.push(0);
        variants.push(("seed-extended".into(), s2, comms.clone()));
        for id in &signers {
            let c = comms[id];
            let mut c2 = comms.clone();
            c2.insert(*id, SigningCommitments::new(NonceCommitment::<C>::new(c.hiding().value() + g::<C>()), *c.binding()));
            variants.push(("hiding-commitment".into(), seed.clone(), c2));
            let mut c2 = comms.clone();
            c2.insert(*id, SigningCommitments::new(*c.hiding(), NonceCommitment::<C>::new(c.binding().value() + g::<C>())));
            variants.push(("binding-commitment".into(), seed.clone(), c2));
            if signers.len() > 1 {
                let mut c2 = comms.clone();
                c2.remove(id);
                variants.push(("signer-removed".into(), seed.clone(), c2));
            }
        }
        if let Some(out) = grp.ids.iter().find(|i| !signers.contains(i)) {
            let mut c2 = comms.clone();
            c2.insert(*out, comms[&signers[0]]);
            variants.push(("signer-added".into(), seed.clone(), c2));
            let mut c2 = comms.clone();
            let c = c2.remove(&signers[0]).unwrap();
            c2.insert(*out, c);
            variants.push(("signer-replaced".into(), seed.clone(), c2));
        }
        for (what, sd, cm) in variants {
            match Randomizer::<C>::regenerate_from_seed_and_commitments(&sd, &cm) {
                Ok(r2) => {
                    if r2.serialize() == base {
                        let cls = what.split("-bit").next().unwrap().to_string();
                        ctx.viol("randomizer-not-bound", &cls, d("randomizer unchanged after changing its input", json!({"change": what})));
                    }
                }
                Err(_) => {}
            }
            ctx.count("binding_variants");
        }
        // tampering between coordinator and one participant: that participant, and only it, is named
        for (vi, victim) in signers.iter().enumerate() {
            let mut tampered: Vec<(&str, SigningPackage<C>, Vec<u8>)> = vec![];
            if !seed.is_empty() {
                let mut s2 = seed.clone();
                s2[vi % seed.len()] ^= 0x20;
                tampered.push(("seed", pkg.clone(), s2));
            }
            if let Some(other) = signers.iter().find(|i| *i != victim) {
                let c = comms[other];
                let mut c2 = comms.clone();
                c2.insert(*other, SigningCommitments::new(*c.hiding(), NonceCommitment::<C>::new(c.binding().value() + g::<C>())));
                tampered.push(("commitment-of-another-signer", SigningPackage::new(c2, &msg), seed.clone()));
            }
            for (what, pkg2, sd2) in tampered {
                let Ok(bad) = frost_rerandomized::sign_with_randomizer_seed(&pkg2, &nonces[victim], &grp.kps[victim], &sd2) else {
                    ctx.count("tampered_sign_refused");
                    continue;
                };
                let mut s2 = shares.clone();
                s2.insert(*victim, bad);
                for (mode, mname) in [(CheaterDetection::FirstCheater, "first"), (CheaterDetection::AllCheaters, "all")] {
                    match frost_rerandomized::aggregate_custom(&pkg, &s2, &grp.pkp, mode, &params) {
                        Ok(_) => ctx.viol("tampered-participant-accepted", what, d("aggregate accepted a share made with other randomizer inputs", json!({"victim": id_hex::<C>(victim)}))),
                        Err(e) => {
                            if e.culprits() != vec![*victim] {
                                ctx.viol("tampered-participant-not-named", what, d("error does not name exactly the participant whose inputs were tampered", json!({"victim": id_hex::<C>(victim), "mode": mname, "err": format!("{e:?}")})));
                            }
                        }
                    }
                    ctx.count("tamper_verdicts");
                }
                ctx.class(format!("tamper/{what}/S={k}"));
            }
        }
    }
    // cheater identification under randomization (C04 oracle) on a handful of alterations
    let co = Coord { sess: Session { signers: signers.clone(), nonces: nonces.clone(), comms: comms.clone(), pkg: pkg.clone(), shares: shares.clone() }, grp: grp.clone(), params: Some(params.clone()), vk: rvk };
    judge_alteration(ctx, &co, &shares, "honest", &msg);
    for (i, id) in signers.iter().enumerate().take(3) {
        let mut s2 = shares.clone();
        s2.insert(*id, share_from::<C>(share_sc::<C>(&shares[id]) + sc_u64::<C>(i as u64 + 1)));
        judge_alteration(ctx, &co, &s2, "plus", &msg);
        if signers.len() >= 2 {
            let j = signers[(i + 1) % signers.len()];
            let mut s3 = s2.clone();
            s3.insert(j, share_from::<C>(share_sc::<C>(&shares[&j]) - sc_u64::<C>(i as u64 + 1)));
            judge_alteration(ctx, &co, &s3, "cancelling-pair", &msg);
            // two cheaters whose alterations do not cancel: every detection mode names what plain FROST names
            let mut s4 = s2.clone();
            s4.insert(j, share_from::<C>(share_sc::<C>(&shares[&j]) + sc_u64::<C>(i as u64 + 7)));
            judge_alteration(ctx, &co, &s4, "two-cheaters", &msg);
            if signers.len() >= 3 {
                let l = signers[(i + 2) % signers.len()];
                let mut s5 = s4.clone();
                s5.insert(l, share_from::<C>(neg::<C>(share_sc::<C>(&shares[&l]))));
                judge_alteration(ctx, &co, &s5, "three-cheaters", &msg);
            }
        }
    }
    // threshold enforcement is unchanged under randomization: on the same material the randomized coordinator gives the
    // same kind of verdict as the plain one, (a) for a public key package that states a larger threshold than the number
    // of shares supplied, (b) for t-1 holders who lowered the threshold in their own key packages
    {
        use frost_core::keys::{KeyPackage, PublicKeyPackage};
        let kind_of = |r: &Result<frost_core::Signature<C>, frost_core::Error<C>>| match r {
            Ok(_) => "Ok".to_string(),
            Err(e) => err_name(e),
        };
        let plain_shares: Option<IdMap<C, _>> = signers.iter().map(|id| C::api_sign(&pkg, &nonces[id], &grp.kps[id]).ok().map(|s| (*id, s))).collect();
        let raised = PublicKeyPackage::<C>::new(grp.pkp.verifying_shares().clone(), vk, Some(signers.len() as u16 + 1));
        if let Some(ps) = &plain_shares {
            for (mk, mname) in [(0, "disabled"), (1, "first"), (2, "all")] {
                let mode = || match mk { 0 => CheaterDetection::Disabled, 1 => CheaterDetection::FirstCheater, _ => CheaterDetection::AllCheaters };
                let a = frost_core::aggregate_custom(&pkg, ps, &raised, mode());
                let b = frost_rerandomized::aggregate_custom(&pkg, &shares, &raised, mode(), &params);
                if kind_of(&a) != kind_of(&b) || b.is_ok() {
                    ctx.viol("threshold-enforcement-differs", &format!("stated-threshold-above-share-count/{mname}"), d("plain and randomized aggregate disagree (or accept) when the package states a threshold above the number of shares", json!({"plain": kind_of(&a), "randomized": kind_of(&b)})));
                }
                ctx.count("threshold_verdicts");
            }
        }
        if t >= 2 {
            let k = t as usize - 1;
            let holders: Vec<Identifier<C>> = signers.iter().take(k).copied().collect();
            let lying: IdMap<C, KeyPackage<C>> = holders.iter().map(|i| (*i, KeyPackage::new(*i, *grp.kps[i].signing_share(), *grp.kps[i].verifying_share(), vk, k as u16))).collect();
            let c2: IdMap<C, SigningCommitments<C>> = holders.iter().map(|i| (*i, comms[i])).collect();
            let pkg2 = SigningPackage::new(c2.clone(), &msg);
            let pr2 = if explicit { Some(params.clone()) } else { RandomizedParams::<C>::regenerate_from_seed_and_commitments(&vk, &seed, &c2).ok() };
            let ps: Option<IdMap<C, _>> = holders.iter().map(|i| C::api_sign(&pkg2, &nonces[i], &lying[i]).ok().map(|s| (*i, s))).collect();
            #[allow(deprecated)]
            let rs: Option<IdMap<C, _>> = holders
                .iter()
                .map(|i| {
                    let r = if explicit { frost_rerandomized::sign(&pkg2, &nonces[i], &lying[i], *params.randomizer()) } else { frost_rerandomized::sign_with_randomizer_seed(&pkg2, &nonces[i], &lying[i], &seed) };
                    r.ok().map(|s| (*i, s))
                })
                .collect();
            if let (Some(ps), Some(rs), Some(pr2)) = (ps, rs, pr2) {
                for (mk, mname) in [(0, "disabled"), (1, "first"), (2, "all")] {
                let mode = || match mk { 0 => CheaterDetection::Disabled, 1 => CheaterDetection::FirstCheater, _ => CheaterDetection::AllCheaters };
                    let a = frost_core::aggregate_custom(&pkg2, &ps, &grp.pkp, mode());
                    let b = frost_rerandomized::aggregate_custom(&pkg2, &rs, &grp.pkp, mode(), &pr2);
                    if kind_of(&a) != kind_of(&b) || b.is_ok() {
                        ctx.viol("threshold-enforcement-differs", &format!("fewer-than-threshold-holders/{mname}"), d("plain and randomized aggregate disagree (or accept) for t-1 holders with lowered key packages", json!({"plain": kind_of(&a), "randomized": kind_of(&b)})));
                    }
                    ctx.count("threshold_verdicts");
                }
            }
            // an honest participant refuses a package with fewer than t commitments, randomized or not
            let id = holders[0];
            #[allow(deprecated)]
            let b = if explicit { frost_rerandomized::sign(&pkg2, &nonces[&id], &grp.kps[&id], *params.randomizer()) } else { frost_rerandomized::sign_with_randomizer_seed(&pkg2, &nonces[&id], &grp.kps[&id], &seed) };
            let a = C::api_sign(&pkg2, &nonces[&id], &grp.kps[&id]);
            let (ka, kb) = (a.as_ref().map(|_| "Ok".to_string()).unwrap_or_else(err_name), b.as_ref().map(|_| "Ok".to_string()).unwrap_or_else(err_name));
            if ka != kb || b.is_ok() {
                ctx.viol("threshold-enforcement-differs", "participant", d("plain and randomized sign disagree (or accept) on a package with fewer than t commitments", json!({"plain": ka, "randomized": kb})));
            }
            ctx.count("threshold_verdicts");
        }
    }
    let _: Option<(Identifier<C>, VerifyingKey<C>)> = None;
    if ctx.samples.is_empty() {
        ctx.sample(json!({"n": n, "t": t, "ids": kind, "randomizer_source": seedk, "seed": hex::encode(&seed[..seed.len().min(64)]), "randomizer": hex::encode(&alpha),
            "checked": "regenerated params, hash derivation, sign+aggregate, verify under randomized key only, binding to seed bits / commitments / signer set, per-participant tampering attribution"}));
    }
}
