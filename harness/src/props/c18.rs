//! C18 — Taproot signatures are valid BIP-340 signatures for the BIP-341 output key.
//! Taproot ciphersuite only; coverage of the 8 parity combinations is *forced*.

use std::collections::BTreeMap;

use frost_core::CheaterDetection;
use frost_core::keys::PublicKeyPackage;
use frost_secp256k1_tr as tr;
use frost_secp256k1_tr::Secp256K1Sha256TR as T;
use frost_secp256k1_tr::keys::Tweak;
use serde_json::json;

use crate::alg::*;
use crate::gen_::*;
use crate::props::c04::{share_from, share_sc};
use crate::proto::*;
use crate::suite::{Suite, indep_verify, tap_tweak_scalar};
use crate::Ctx;

pub fn run<C: Suite>(ctx: &mut Ctx) {
    if !C::TAPROOT {
        return;
    }
    let need: u64 = ctx.scale(4, 64);
    // special contents as well as special lengths: an all-zero root is a root like any other
    let roots = ["absent", "empty", "32-bytes", "5-bytes", "100-bytes", "untweaked", "32-zero-bytes", "1-zero-byte", "32-ff-bytes"];
    for source in ["dealer", "dkg"] {
        for root in roots {
            // one item per (source, root): loops over seeds until every parity cell was observed `need` times
            if !ctx.item(&format!("keys={source} root={root}")) {
                continue;
            }
            ctx.guard(|ctx| cell_loop(ctx, source, root, need));
        }
    }
}

fn x_only(b33: &[u8]) -> Vec<u8> {
    b33[1..].to_vec()
}

fn cell_loop(ctx: &mut Ctx, source: &str, root: &str, need: u64) {
    let mut cells: BTreeMap<String, u64> = BTreeMap::new();
    let all_cells: Vec<String> = if root == "untweaked" {
        let mut v = vec![];
        for a in 0..2 { for c in 0..2 { v.push(format!("P{a}/R{c}")); } }
        v
    } else {
        let mut v = vec![];
        for a in 0..2 { for b in 0..2 { for c in 0..2 { v.push(format!("P{a}/Q{b}/R{c}")); } } }
        v
    };
    let cap = 4096u64;
    let mut iter = 0u64;
    while iter < cap && all_cells.iter().any(|c| cells.get(c).copied().unwrap_or(0) < need) {
        iter += 1;
        if let Some(cell) = one_session(ctx, source, root, iter) {
            *cells.entry(cell).or_insert(0) += 1;
        }
    }
    for c in &all_cells {
        let n = cells.get(c).copied().unwrap_or(0);
        ctx.add(&format!("cell/{source}/{root}/{c}"), n);
        if n >= need {
            ctx.class(format!("{source}/{root}/{c}"));
        } else {
            ctx.count("cells_unfilled");
        }
    }
    ctx.add("seeds_tried", iter);
}

fn one_session(ctx: &mut Ctx, source: &str, root: &str, iter: u64) -> Option<String> {
    let mut rng = crate::rng::TraceRng::from_parts(&[b"c18", &ctx.seed.to_le_bytes(), source.as_bytes(), root.as_bytes(), &iter.to_le_bytes()]);
    let mut p = crate::rng::Pick::new(&[b"c18p", &ctx.seed.to_le_bytes(), source.as_bytes(), root.as_bytes(), &iter.to_le_bytes()]);
    let shapes_v = [(2u16, 2u16), (3, 2), (3, 3), (4, 3), (5, 3)];
    let (n, t) = shapes_v[p.below(if source == "dkg" { 3 } else { 5 })];
    let kind = ["default", "sparse-u16", "derived"][p.below(3)];
    let ids = identifiers::<T>(kind, n as usize, &mut p);
    let grp = if source == "dealer" { dealer_group::<T>(n, t, if kind == "default" { None } else { Some(&ids[..]) }, None, &mut rng) } else { dkg_group::<T>(n, t, &ids, &mut rng).map(|x| x.0) };
    let grp = match grp {
        Ok(g) => g,
        Err(e) => {
            ctx.viol("honest-keygen-failed", source, json!({"err": format!("{e:?}")}));
            return None;
        }
    };
    let merkle: Option<Vec<u8>> = match root {
        "absent" | "untweaked" => None,
        "empty" => Some(vec![]),
        "32-bytes" => Some(p.bytes(32)),
        "5-bytes" => Some(p.bytes(5)),
        "32-zero-bytes" => Some(vec![0u8; 32]),
        "1-zero-byte" => Some(vec![0u8]),
        "32-ff-bytes" => Some(vec![0xffu8; 32]),
        _ => Some(p.bytes(100)),
    };
    let tweaked = root != "untweaked";
    let k = t as usize + p.below((n - t) as usize + 1);
    let sub = p.subset(n as usize, k);
    let signers = pick_ids(&grp.ids, &sub);
    let mlen = p.below(80);
    let msg = if p.coin() { p.bytes(32) } else { p.bytes(mlen) };
    let (nonces, comms) = commit_all(&grp, &signers, &mut rng);
    let pkg = tr::SigningPackage::new(comms.clone(), &msg);
    let d = |what: &str, extra: serde_json::Value| json!({"what": what, "keys": source, "root": root, "n": n, "t": t, "merkle_root": merkle.as_ref().map(hex::encode), "iter": iter, "extra": extra});
    let mut shares = BTreeMap::new();
    for id in &signers {
        let r = if tweaked { tr::round2::sign_with_tweak(&pkg, &nonces[id], &grp.kps[id], merkle.as_deref()) } else { tr::round2::sign(&pkg, &nonces[id], &grp.kps[id]) };
        match r {
            Ok(s) => {
                shares.insert(*id, s);
            }
            Err(e) => {
                ctx.viol("honest-sign-failed", root, d("sign", json!({"err": format!("{e:?}")})));
                return None;
            }
        }
    }
    let sig = match if tweaked { tr::aggregate_with_tweak(&pkg, &shares, &grp.pkp, merkle.as_deref()) } else { tr::aggregate(&pkg, &shares, &grp.pkp) } {
        Ok(s) => s,
        Err(e) => {
            ctx.viol("honest-aggregate-failed", root, d("aggregate", json!({"err": format!("{e:?}")})));
            return None;
        }
    };
    let sigb = sig.serialize().unwrap();
    if sigb.len() != 64 {
        ctx.viol("signature-encoding", "length", d("signature is not 64 bytes", json!({"len": sigb.len()})));
    }
    // internal key P (the group key), BIP-341 output key Q computed independently of the suite crate
    let p_el = grp.pkp.verifying_key().to_element();
    let pb = el_bytes::<T>(&p_el).unwrap();
    let par_p = pb[0] & 1;
    let (q_el, par_q) = if tweaked {
        let tw = tap_tweak_scalar::<T>(&pb[1..], merkle.as_deref().unwrap_or(&[]));
        let even_p = if par_p == 1 { ident::<T>() - p_el } else { p_el };
        let q = even_p + g::<T>() * tw;
        let qb = el_bytes::<T>(&q).unwrap();
        (q, qb[0] & 1)
    } else {
        (p_el, par_p)
    };
    let qb = el_bytes::<T>(&q_el).unwrap();
    let qx = x_only(&qb);
    let par_r = parity_tag::<T>(sig.R());
    // 1. valid BIP-340 signature for the output key: in-harness BIP-340 check, libsecp256k1, Python (logged)
    if !indep_verify::<T>(&qb, &msg, &sigb) {
        ctx.viol("bip340-rejected", "independent-verifier", d("signature rejected under the BIP-341 output key", json!({"sig": hex::encode(&sigb), "q": hex::encode(&qx)})));
    }
    if <T as Suite>::ext_verify(&qb, &msg, &sigb) != Some(true) {
        ctx.viol("bip340-rejected", "libsecp256k1", d("libsecp256k1 verify_schnorr rejects", json!({"sig": hex::encode(&sigb), "q": hex::encode(&qx)})));
    }
    if iter <= 40 {
        ctx.event(json!({"k": "taproot", "item": ctx.cur_item, "internal_key": hex::encode(&pb), "merkle_root": merkle.as_ref().map(hex::encode), "tweaked": tweaked,
            "output_key_x": hex::encode(&qx), "msg": hex::encode(&msg), "sig": hex::encode(&sigb)}));
        ctx.count("python_samples");
    }
    // the library's own tweaked package agrees on the output key
    if tweaked {
        let tp: PublicKeyPackage<T> = grp.pkp.clone().tweak(merkle.as_deref());
        if tp.verifying_key().to_element() != q_el {
            ctx.viol("output-key-wrong", root, d("PublicKeyPackage::tweak key != even(P) + H_TapTweak(x(P)||root) G", json!({"got": el_hex::<T>(&tp.verifying_key().to_element()), "want": hex::encode(&qb)})));
        }
        if tp.verifying_key().verify(&msg, &sig).is_err() {
            ctx.viol("bip340-rejected", "library-verify", d("library verify under tweaked key fails", json!({})));
        }
        // 2. not valid under the untweaked key (the tweak scalar is non-zero)
        if indep_verify::<T>(&pb, &msg, &sigb) || grp.pkp.verifying_key().verify(&msg, &sig).is_ok() {
            ctx.viol("verifies-under-untweaked-key", root, d("tweaked signature verifies under the internal key", json!({})));
        }
        // Some(&[]) and None denote the same key-path-only tweak per BIP-341 (t = H(x(P)))
    }
    // 3. share verification and cheater identification answer the same in every parity case
    let eff_pkp: PublicKeyPackage<T> = if tweaked { grp.pkp.clone().tweak(merkle.as_deref()) } else { grp.pkp.clone() };
    let eff_vk = *eff_pkp.verifying_key();
    for id in &signers {
        let vs = eff_pkp.verifying_shares()[id];
        if frost_core::verify_signature_share(*id, &vs, &shares[id], &pkg, &eff_vk).is_err() {
            ctx.viol("share-verification-parity", "rejects-honest", d("honest share rejected", json!({"cell": format!("P{par_p}/Q{par_q}/R{par_r}"), "signer": id_hex::<T>(id)})));
        }
        let bad = share_from::<T>(share_sc::<T>(&shares[id]) + one::<T>());
        if frost_core::verify_signature_share(*id, &vs, &bad, &pkg, &eff_vk).is_ok() {
            ctx.viol("share-verification-parity", "accepts-altered", d("altered share accepted", json!({"cell": format!("P{par_p}/Q{par_q}/R{par_r}")})));
        }
        let negd = share_from::<T>(neg::<T>(share_sc::<T>(&shares[id])));
        if frost_core::verify_signature_share(*id, &vs, &negd, &pkg, &eff_vk).is_ok() {
            ctx.viol("share-verification-parity", "accepts-negated", d("negated share accepted", json!({"cell": format!("P{par_p}/Q{par_q}/R{par_r}")})));
        }
        ctx.count("share_verdicts");
        // a signer that gets one of the three negations wrong (nonce not negated for odd R, key share not negated for
        // odd P or odd Q): its share is a wrong share in every parity cell - rejected alone, and named by aggregation
        let neg_key = |v: &frost_core::VerifyingKey<T>| frost_core::VerifyingKey::<T>::new(ident::<T>() - v.to_element());
        let cands = [eff_vk, neg_key(&eff_vk), *grp.pkp.verifying_key(), neg_key(grp.pkp.verifying_key())];
        for (vname, v) in crate::props::c04::parity_confused::<T>(&pkg, &nonces[id], id, share_sc::<T>(&shares[id]), &cands) {
            let bad = share_from::<T>(v);
            let cell = format!("P{par_p}/Q{par_q}/R{par_r}");
            if frost_core::verify_signature_share(*id, &vs, &bad, &pkg, &eff_vk).is_ok() {
                ctx.viol("share-verification-parity", "accepts-sign-confused", d("a share with one sign convention flipped is accepted", json!({"cell": cell, "variant": vname, "signer": id_hex::<T>(id)})));
            }
            let mut s2 = shares.clone();
            s2.insert(*id, bad);
            for (mode, mname) in [(CheaterDetection::FirstCheater, "first"), (CheaterDetection::AllCheaters, "all")] {
                match frost_core::aggregate_custom(&pkg, &s2, &eff_pkp, mode) {
                    Ok(_) => ctx.viol("cheater-identification-parity", &format!("accepted-sign-confused/{mname}"), d("aggregate accepted a sign-confused share", json!({"cell": cell, "variant": vname}))),
                    Err(e) => {
                        if e.culprits() != vec![*id] {
                            ctx.viol("cheater-identification-parity", &format!("culprits-sign-confused/{mname}"), d("the sign-confused signer is not the one named", json!({"cell": cell, "variant": vname, "err": format!("{e:?}"), "signer": id_hex::<T>(id)})));
                        }
                    }
                }
                ctx.count("cheater_verdicts");
            }
            ctx.count("sign_confused_shares");
        }
    }
    // cheater subsets: one, two, all
    let mut sorted = signers.clone();
    sort_ids_numeric::<T>(&mut sorted);
    let cheat_sets: Vec<Vec<usize>> = vec![vec![k - 1], vec![0], (0..k).collect(), if k >= 2 { vec![0, k - 1] } else { vec![0] }];
    for cs in cheat_sets {
        let mut s2 = shares.clone();
        for &ci in &cs {
            let id = sorted[ci];
            s2.insert(id, share_from::<T>(share_sc::<T>(&shares[&id]) + sc_u64::<T>(ci as u64 + 2)));
        }
        let mut want: Vec<Vec<u8>> = cs.iter().map(|ci| id_int::<T>(&sorted[*ci])).collect();
        want.sort();
        want.dedup();
        // the crate's own entry points (default strategy: first cheater) get the *untweaked* package and tweak it themselves
        {
            let r = if tweaked { tr::aggregate_with_tweak(&pkg, &s2, &grp.pkp, merkle.as_deref()) } else { tr::aggregate(&pkg, &s2, &grp.pkp) };
            match r {
                Ok(_) => ctx.viol("cheater-identification-parity", "accepted/crate-entry-point", d("altered shares accepted by the crate's aggregate entry point", json!({"cell": format!("P{par_p}/Q{par_q}/R{par_r}")}))),
                Err(e) => {
                    let cul: Vec<Vec<u8>> = e.culprits().iter().map(id_int::<T>).collect();
                    if cul != vec![want[0].clone()] {
                        ctx.viol("cheater-identification-parity", "culprits/crate-entry-point", d("the crate's aggregate entry point names someone other than the first cheater", json!({"cell": format!("P{par_p}/Q{par_q}/R{par_r}"), "err": format!("{e:?}"), "cheaters": cs})));
                    }
                }
            }
            ctx.count("cheater_verdicts");
        }
        for (mode, mname) in [(CheaterDetection::FirstCheater, "first"), (CheaterDetection::AllCheaters, "all"), (CheaterDetection::Disabled, "disabled")] {
            let r = frost_core::aggregate_custom(&pkg, &s2, &eff_pkp, mode);
            match r {
                Ok(_) => ctx.viol("cheater-identification-parity", &format!("accepted/{mname}"), d("altered shares accepted", json!({"cell": format!("P{par_p}/Q{par_q}/R{par_r}")}))),
                Err(e) => {
                    let mut cul: Vec<Vec<u8>> = e.culprits().iter().map(id_int::<T>).collect();
                    cul.sort();
                    let ok = match mname {
                        "first" => cul == vec![want[0].clone()],
                        "all" => cul == want,
                        _ => cul.is_empty(),
                    };
                    if !ok {
                        ctx.viol("cheater-identification-parity", &format!("culprits/{mname}"), d("wrong culprits", json!({"cell": format!("P{par_p}/Q{par_q}/R{par_r}"), "err": format!("{e:?}"), "cheaters": cs})));
                    }
                }
            }
            ctx.count("cheater_verdicts");
        }
    }
    // 3b. the public even-Y helpers (`keys::EvenY`) on every type that has them: the result has even Y, is the value itself
    // or its exact negation, and an explicit parity argument is obeyed
    {
        use frost_secp256k1_tr::keys::EvenY;
        let odd = |e: &El<T>| parity_tag::<T>(e) == 1;
        let cellp = format!("P{par_p}");
        let bad = |ctx: &mut Ctx, ty: &str, what: &str| ctx.viol("even-y-helper", &format!("{ty}/{what}"), d("EvenY helper", json!({"type": ty, "what": what, "cell": cellp})));
        // VerifyingKey
        let vk0 = *grp.pkp.verifying_key();
        let nvk = ident::<T>() - vk0.to_element();
        let e = vk0.into_even_y(None);
        if !e.has_even_y() || odd(&e.to_element()) || e.to_element() != (if par_p == 1 { nvk } else { vk0.to_element() }) || vk0.has_even_y() != (par_p == 0) {
            bad(ctx, "VerifyingKey", "none");
        }
        if vk0.into_even_y(Some(true)).to_element() != vk0.to_element() || vk0.into_even_y(Some(false)).to_element() != nvk {
            bad(ctx, "VerifyingKey", "explicit");
        }
        // PublicKeyPackage
        let e = grp.pkp.clone().into_even_y(None);
        let want_neg = par_p == 1;
        let pk_ok = |e: &PublicKeyPackage<T>, negd: bool| {
            e.verifying_key().to_element() == (if negd { nvk } else { vk0.to_element() })
                && e.min_signers() == grp.pkp.min_signers()
                && e.verifying_shares().len() == grp.pkp.verifying_shares().len()
                && grp.pkp.verifying_shares().iter().all(|(i, v)| e.verifying_shares().get(i).map(|x| x.to_element()) == Some(if negd { ident::<T>() - v.to_element() } else { v.to_element() }))
        };
        if !e.has_even_y() || !pk_ok(&e, want_neg) || grp.pkp.has_even_y() != (par_p == 0) {
            bad(ctx, "PublicKeyPackage", "none");
        }
        if !pk_ok(&grp.pkp.clone().into_even_y(Some(true)), false) || !pk_ok(&grp.pkp.clone().into_even_y(Some(false)), true) {
            bad(ctx, "PublicKeyPackage", "explicit");
        }
        // KeyPackage
        let kp0 = &grp.kps[&signers[0]];
        let kp_ok = |e: &tr::keys::KeyPackage, negd: bool| {
            e.identifier() == kp0.identifier()
                && e.min_signers() == kp0.min_signers()
                && e.verifying_key().to_element() == (if negd { nvk } else { vk0.to_element() })
                && e.signing_share().to_scalar() == (if negd { neg::<T>(kp0.signing_share().to_scalar()) } else { kp0.signing_share().to_scalar() })
                && e.verifying_share().to_element() == g::<T>() * e.signing_share().to_scalar()
        };
        let e = kp0.clone().into_even_y(None);
        if !e.has_even_y() || !kp_ok(&e, want_neg) || kp0.has_even_y() != (par_p == 0) {
            bad(ctx, "KeyPackage", "none");
        }
        if !kp_ok(&kp0.clone().into_even_y(Some(true)), false) || !kp_ok(&kp0.clone().into_even_y(Some(false)), true) {
            bad(ctx, "KeyPackage", "explicit");
        }
        // Signature (R) and GroupCommitment
        let r0 = *sig.R();
        let r_odd = odd(&r0);
        let e = sig.into_even_y(None);
        if !e.has_even_y() || *e.R() != (if r_odd { ident::<T>() - r0 } else { r0 }) || e.z() != sig.z() || sig.has_even_y() == r_odd {
            bad(ctx, "Signature", "none");
        }
        if *sig.into_even_y(Some(false)).R() != ident::<T>() - r0 || *sig.into_even_y(Some(true)).R() != r0 {
            bad(ctx, "Signature", "explicit");
        }
        for el in [r0, ident::<T>() - r0] {
            let gc = frost_core::GroupCommitment::<T>::from_element(el);
            let o = odd(&el);
            let e = gc.clone().into_even_y(None);
            if !e.has_even_y() || e.clone().to_element() != (if o { ident::<T>() - el } else { el }) || gc.has_even_y() == o {
                bad(ctx, "GroupCommitment", "none");
            }
            if gc.clone().into_even_y(Some(false)).to_element() != ident::<T>() - el || gc.clone().into_even_y(Some(true)).to_element() != el {
                bad(ctx, "GroupCommitment", "explicit");
            }
        }
        // SigningKey
        let x = sc_from_be_bytes_mod::<T>(&p.bytes(40)) + one::<T>();
        if let Ok(sk) = tr::SigningKey::from_scalar(x) {
            let o = odd(&(g::<T>() * x));
            let e = sk.clone().into_even_y(None);
            if !e.has_even_y() || e.to_scalar() != (if o { neg::<T>(x) } else { x }) || sk.has_even_y() == o {
                bad(ctx, "SigningKey", "none");
            }
            if sk.clone().into_even_y(Some(false)).to_scalar() != neg::<T>(x) || sk.clone().into_even_y(Some(true)).to_scalar() != x {
                bad(ctx, "SigningKey", "explicit");
            }
        }
        ctx.count("even_y_helper_checks");
    }
    // 4. key generation outputs the key-path-only tweaked key (DKG) — C07 checks the formula; here the x-only
    // output is re-derived from the constant terms by the Python BIP-341 code through the C07 log.
    ctx.count("sessions_judged");
    if ctx.samples.len() < 2 {
        ctx.sample(json!({"keys": source, "root": root, "n": n, "t": t, "internal_key": hex::encode(&pb), "output_key_x": hex::encode(&qx), "sig": hex::encode(&sigb),
            "parities": {"internal_key": par_p, "output_key": par_q, "group_commitment": par_r}}));
    }
    Some(if tweaked { format!("P{par_p}/Q{par_q}/R{par_r}") } else { format!("P{par_p}/R{par_r}") })
}
