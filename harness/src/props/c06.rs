//! C06 — dealer key generation yields consistent, verifiable shares of the given key.

use frost_core::keys::{
    CoefficientCommitment, IdentifierList, KeyPackage, SecretShare, SigningShare, VerifiableSecretSharingCommitment,
    VerifyingShare,
};
use frost_core::{Identifier, SigningKey};
use serde_json::json;

use crate::alg::*;
use crate::gen_::*;
use crate::proto::*;
use crate::{Ctx, Suite};

pub fn run<C: Suite>(ctx: &mut Ctx) {
    let slow = C::NAME == "ed448";
    let max_n: u16 = match (ctx.quick(), slow) {
        (true, true) => 6,
        (true, false) => 7,
        (false, true) => 10,
        (false, false) => 14,
    };
    for (n, t) in shapes(max_n) {
        for kind in ID_KINDS {
            for key in ["random", "one", "order-1"] {
                if key != "random" && kind != "default" && kind != "derived" {
                    continue;
                }
                if ctx.quick() && key != "random" && (n as usize + t as usize) % 3 != 0 {
                    continue;
                }
                if !ctx.item(&format!("n={n} t={t} ids={kind} key={key}")) {
                    continue;
                }
                ctx.guard(|ctx| item::<C>(ctx, n, t, kind, key));
            }
        }
    }
    // large shapes
    let mut large: Vec<(u16, u16)> = if ctx.quick() { vec![(60, 2), (30, 29)] } else { vec![(300, 2), (100, 51), (64, 64)] };
    if !ctx.quick() && (C::NAME == "ed25519" || C::NAME == "secp256k1") {
        large.push((65535, 2));
    }
    for (n, t) in large {
        if !ctx.item(&format!("large n={n} t={t}")) {
            continue;
        }
        ctx.guard(|ctx| item::<C>(ctx, n, t, "default", "random"));
    }
    // parameter validation over the u16 boundary grid
    if ctx.item("parameter-grid") {
        ctx.guard(|ctx| params::<C>(ctx));
    }
}

fn item<C: Suite>(ctx: &mut Ctx, n: u16, t: u16, kind: &str, keyk: &str) {
    let mut rng = ctx.rng("keys");
    let mut p = ctx.pick("choices");
    let ids = identifiers::<C>(kind, n as usize, &mut p);
    let idl = if kind == "default" { None } else { Some(&ids[..]) };
    let key = match keyk {
        "one" => one::<C>(),
        "order-1" => neg::<C>(one::<C>()),
        _ => sc_from_be_bytes_mod::<C>(&p.bytes(64)),
    };
    let grp = match dealer_group::<C>(n, t, idl, Some(key), &mut rng) {
        Ok(g) => g,
        Err(e) => return ctx.viol("valid-parameters-refused", "", json!({"n": n, "t": t, "ids": kind, "err": format!("{e:?}")})),
    };
    let d = |what: &str, extra: serde_json::Value| json!({"what": what, "n": n, "t": t, "ids": kind, "key": keyk, "extra": extra});
    let nn = n as usize;
    let tt = t as usize;
    let want_ids: Vec<Identifier<C>> = if kind == "default" { (1..=n).map(|i| Identifier::try_from(i).unwrap()).collect() } else { ids.clone() };
    if grp.shares.len() != nn || grp.pkp.verifying_shares().len() != nn || want_ids.iter().any(|i| !grp.shares.contains_key(i) || !grp.pkp.verifying_shares().contains_key(i)) {
        ctx.viol("dealer-output-inconsistent", "identifier-set", d("shares / public package do not cover exactly the requested identifiers", json!({})));
    }
    if grp.pkp.min_signers() != Some(t) {
        ctx.viol("dealer-output-inconsistent", "pkp-threshold", d("public key package threshold", json!({"got": format!("{:?}", grp.pkp.min_signers())})));
    }
    let gk = g::<C>() * key;
    if grp.pkp.verifying_key().to_element() != gk {
        ctx.viol("dealer-output-inconsistent", "group-key", d("group key != G*key given to split", json!({})));
    }
    let first_comm = grp.shares.values().next().unwrap().commitment().clone();
    let comm_els: Vec<El<C>> = first_comm.coefficients().iter().map(|c| c.value()).collect();
    if comm_els.len() != tt {
        ctx.viol("dealer-output-inconsistent", "commitment-length", d("commitment length != t", json!({"len": comm_els.len()})));
    }
    if comm_els.first().copied() != Some(gk) {
        ctx.viol("dealer-output-inconsistent", "constant-term", d("C_0 != G*key", json!({})));
    }
    let check_all = nn <= 20;
    let probe: Vec<usize> = if check_all { (0..nn).collect() } else { let mut v = p.subset(nn, 12); v.extend([0, nn - 1]); v.sort(); v.dedup(); v };
    for &ix in &probe {
        let id = grp.ids[ix];
        let sh = &grp.shares[&id];
        let kp = &grp.kps[&id];
        if sh.commitment() != &first_comm {
            ctx.viol("dealer-output-inconsistent", "commitments-differ", d("participants see different commitments", json!({})));
        }
        if sh.identifier() != &id || kp.identifier() != &id {
            ctx.viol("dealer-output-inconsistent", "identifier", d("identifier mismatch", json!({})));
        }
        if sh.verify().is_err() {
            ctx.viol("honest-share-rejected", "", d("SecretShare::verify failed", json!({"id": id_hex::<C>(&id)})));
        }
        let s = sh.signing_share().to_scalar();
        let gs = g::<C>() * s;
        if kp.verifying_share().to_element() != gs || grp.pkp.verifying_shares()[&id].to_element() != gs {
            ctx.viol("dealer-output-inconsistent", "verifying-share", d("verifying share != G*signing share (key package / public package)", json!({"id": id_hex::<C>(&id)})));
        }
        if kp.verifying_key() != grp.pkp.verifying_key() || *kp.min_signers() != t || kp.signing_share().to_scalar() != s {
            ctx.viol("dealer-output-inconsistent", "key-package", d("key package group key / threshold / share", json!({"id": id_hex::<C>(&id)})));
        }
        // the polynomial identity, recomputed outside evaluate_vss
        if gs != eval_commit::<C>(&comm_els, id_sc::<C>(&id)) {
            ctx.viol("share-off-committed-polynomial", "", d("G*s_i != sum_k id^k C_k", json!({"id": id_hex::<C>(&id)})));
        }
        ctx.count("shares_checked");
    }
    // anybody can recreate the public key package from the published commitment and the identifier set
    {
        let idset: std::collections::BTreeSet<Identifier<C>> = grp.ids.iter().copied().collect();
        match frost_core::keys::PublicKeyPackage::<C>::from_commitment(&idset, &first_comm) {
            Ok(re) => {
                if re != grp.pkp {
                    ctx.viol("dealer-output-inconsistent", "recreated-public-key-package", d("PublicKeyPackage::from_commitment(identifiers, commitment) != the dealer's public key package", json!({})));
                }
            }
            Err(e) => ctx.viol("dealer-output-inconsistent", "recreated-public-key-package", d("from_commitment failed", json!({"err": format!("{e:?}")}))),
        }
        ctx.count("recreations");
    }
    // log a sample for the Python re-check of the polynomial identity
    if ctx.cur_item % 7 == 0 && nn <= 10 {
        ctx.event(json!({"k": "vss", "item": ctx.cur_item,
            "ids": grp.ids.iter().map(id_hex::<C>).collect::<Vec<_>>(),
            "shares": grp.ids.iter().map(|i| sc_hex::<C>(&grp.shares[i].signing_share().to_scalar())).collect::<Vec<_>>(),
            "commitment": comm_els.iter().map(el_hex::<C>).collect::<Vec<_>>(),
            "key": sc_hex::<C>(&key), "vk": el_hex::<C>(&gk)}));
    }
    // reconstruction by any t shares; not by t-1
    let xs: Vec<Sc<C>> = grp.ids.iter().map(id_sc::<C>).collect();
    let ys: Vec<Sc<C>> = grp.ids.iter().map(|i| grp.shares[i].signing_share().to_scalar()).collect();
    for sub in subsets(nn, tt, if nn <= 8 { 80 } else { 8 }, &mut p) {
        let kps: Vec<KeyPackage<C>> = sub.iter().map(|i| grp.kps[&grp.ids[*i]].clone()).collect();
        match C::api_reconstruct(&kps) {
            Ok(k2) => {
                if k2.to_scalar() != key {
                    ctx.viol("t-shares-do-not-reconstruct", "library", d("reconstruct(t shares) != key", json!({"subset": sub})));
                }
            }
            Err(e) => ctx.viol("t-shares-do-not-reconstruct", "library-error", d("reconstruct(t shares) failed", json!({"subset": sub, "err": format!("{e:?}")}))),
        }
        let sx: Vec<_> = sub.iter().map(|i| xs[*i]).collect();
        let sy: Vec<_> = sub.iter().map(|i| ys[*i]).collect();
        if interpolate_at::<C>(&sx, &sy, zero::<C>()) != Some(key) {
            ctx.viol("t-shares-do-not-reconstruct", "interpolation", d("independent interpolation of t shares != key", json!({"subset": sub})));
        }
        ctx.count("reconstructions");
    }
    // more than t packages, in orders other than ascending: any superset of t shares reconstructs as well
    if nn > tt && nn <= 300 {
        for rep in 0..3usize {
            let k = tt + 1 + p.below(nn - tt);
            let mut idx = p.subset(nn, k);
            match rep {
                0 => idx.reverse(),
                1 => idx.rotate_left(1),
                _ => p.shuffle(&mut idx),
            }
            let order = ["descending", "rotated", "shuffled"][rep];
            let kv: Vec<KeyPackage<C>> = idx.iter().map(|i| grp.kps[&grp.ids[*i]].clone()).collect();
            match C::api_reconstruct(&kv) {
                Ok(k2) if k2.clone().to_scalar() == key => {}
                Ok(_) => ctx.viol("t-shares-do-not-reconstruct", "library/more-than-t", d("reconstruct(more than t packages) != key", json!({"subset": idx, "order": order}))),
                Err(e) => ctx.viol("t-shares-do-not-reconstruct", "library-error/more-than-t", d("reconstruct(more than t packages) failed", json!({"err": format!("{e:?}"), "subset": idx, "order": order}))),
            }
            ctx.count("reconstructions");
            ctx.class(format!("reconstruct/more-than-t/{order}"));
        }
    }
    if tt >= 2 {
        for sub in subsets(nn, tt - 1, 6, &mut p) {
            let sx: Vec<_> = sub.iter().map(|i| xs[*i]).collect();
            let sy: Vec<_> = sub.iter().map(|i| ys[*i]).collect();
            if interpolate_at::<C>(&sx, &sy, zero::<C>()) == Some(key) {
                ctx.viol("t-1-shares-reconstruct", "", d("t-1 shares interpolate to the key", json!({"subset": sub})));
            }
        }
    }
    ctx.class(format!("n={n}/t={t}/{kind}/{keyk}"));

    // ---- tampering: every single coordinate of a share ------------------------------------
    let victims: Vec<usize> = if nn <= 6 { (0..nn).collect() } else { vec![0, nn / 2, nn - 1] };
    for &ix in &victims {
        let id = grp.ids[ix];
        let sh = grp.shares[&id].clone();
        let s = sh.signing_share().to_scalar();
        let rebuild = |id: Identifier<C>, s: Sc<C>, comm: Vec<El<C>>| {
            SecretShare::<C>::new(id, SigningShare::<C>::new(s), VerifiableSecretSharingCommitment::<C>::new(comm.into_iter().map(CoefficientCommitment::<C>::new).collect()))
        };
        let mut tampered: Vec<(String, SecretShare<C>)> = vec![];
        tampered.push(("value+1".into(), rebuild(id, s + one::<C>(), comm_els.clone())));
        tampered.push(("value-negated".into(), rebuild(id, neg::<C>(s), comm_els.clone())));
        let other = grp.ids[(ix + 1) % nn];
        tampered.push(("identifier-swapped".into(), rebuild(other, s, comm_els.clone())));
        tampered.push(("value-of-other".into(), rebuild(id, grp.shares[&other].signing_share().to_scalar(), comm_els.clone())));
        for k in 0..comm_els.len() {
            let mut c = comm_els.clone();
            c[k] = c[k] + g::<C>();
            tampered.push((format!("commitment[{k}]+G"), rebuild(id, s, c)));
            let mut c = comm_els.clone();
            c[k] = g::<C>() * (sc_from_be_bytes_mod::<C>(&p.bytes(48)) + one::<C>());
            tampered.push((format!("commitment[{k}]=random"), rebuild(id, s, c)));
            if comm_els.len() >= 2 {
                let mut c = comm_els.clone();
                let o = (k + 1) % comm_els.len();
                if c[k] != c[o] {
                    c[k] = c[o];
                    tampered.push((format!("commitment[{k}]=commitment[{o}]"), rebuild(id, s, c)));
                }
            }
        }
        let mut c = comm_els.clone();
        c.pop();
        tampered.push(("commitment-truncated".into(), rebuild(id, s, c)));
        let mut c = comm_els.clone();
        c.push(g::<C>() * (sc_from_be_bytes_mod::<C>(&p.bytes(48)) + one::<C>()));
        tampered.push(("commitment-extended".into(), rebuild(id, s, c)));
        for (what, ts) in tampered {
            let cls = what.split('[').next().unwrap().to_string() + if what.contains(']') { what.split(']').nth(1).unwrap_or("") } else { "" };
            let v = ts.verify().is_ok();
            let k = KeyPackage::<C>::try_from(ts).is_ok();
            if v || k {
                ctx.viol("tampered-share-accepted", &cls, d("a share with one altered coordinate was accepted", json!({"tamper": what, "id": id_hex::<C>(&id), "verify": v, "try_from": k})));
            }
            ctx.count("tamperings");
            ctx.class(format!("tamper/{cls}/t={t}"));
        }
    }
    if ctx.samples.is_empty() {
        ctx.sample(json!({"n": n, "t": t, "ids": kind, "key": keyk, "first_identifier": id_hex::<C>(&grp.ids[0]),
            "checked": "verify/try_from, G*s_i == sum id^k C_k, verifying shares, group key, thresholds, t-subset reconstruction, single-coordinate tamperings"}));
    }
}

fn params<C: Suite>(ctx: &mut Ctx) {
    let grid = [0u16, 1, 2, 3, 65534, 65535];
    let mut rng = ctx.rng("params");
    let key = SigningKey::<C>::new(&mut rng);
    let fast = C::NAME == "ed25519" || C::NAME == "ristretto255" || C::NAME == "secp256k1";
    for &n in &grid {
        for &t in &grid {
            let valid = t >= 2 && n >= 2 && t <= n;
            if valid && n > 3 && !(fast && !ctx.quick() && t <= 2) {
                ctx.count("params_valid_large_skipped");
                continue;
            }
            let r = C::api_split(&key, n, t, IdentifierList::Default, &mut rng);
            let r2 = C::api_generate_with_dealer(n, t, IdentifierList::Default, &mut rng);
            for (nm, ok) in [("split", r.is_ok()), ("generate_with_dealer", r2.is_ok())] {
                if ok != valid {
                    ctx.viol("parameter-validation", if ok { "invalid-accepted" } else { "valid-refused" }, json!({"fn": nm, "n": n, "t": t}));
                }
                ctx.count("parameter_pairs");
            }
            ctx.class(format!("params/n={n}/t={t}"));
        }
    }
    // the u16 boundary for real: n = 65535 (and 65534) with default identifiers — every participant gets a share
    if C::NAME == "ed25519" || (!ctx.quick() && fast) {
        for n in [65535u16, 65534] {
            if ctx.quick() && n != 65535 {
                continue;
            }
            match C::api_split(&key, n, 2, IdentifierList::Default, &mut rng) {
                Ok((shares, pkp)) => {
                    let last = Identifier::<C>::try_from(n).unwrap();
                    let first = Identifier::<C>::try_from(1u16).unwrap();
                    if shares.len() != n as usize || pkp.verifying_shares().len() != n as usize || !shares.contains_key(&last) || !shares.contains_key(&first) {
                        ctx.viol("dealer-output-inconsistent", "identifier-set-at-u16-boundary", json!({"n": n, "shares": shares.len(), "public_entries": pkp.verifying_shares().len()}));
                    }
                    for id in [first, last, Identifier::<C>::try_from(n / 2).unwrap()] {
                        if let Some(sh) = shares.get(&id) {
                            if KeyPackage::<C>::try_from(sh.clone()).is_err() || Some(&VerifyingShare::from(*sh.signing_share())) != pkp.verifying_shares().get(&id) {
                                ctx.viol("honest-share-rejected", "u16-boundary", json!({"n": n, "id": id_hex::<C>(&id)}));
                            }
                        }
                    }
                }
                Err(e) => ctx.viol("parameter-validation", "valid-refused", json!({"n": n, "t": 2, "err": format!("{e:?}")})),
            }
            ctx.count("u16_boundary_runs");
            ctx.class(format!("params/n={n}/default-identifiers"));
        }
    }
    // identifier list: wrong count, duplicates, boundary u16 values
    let ids: Vec<Identifier<C>> = [1u16, 2, 65535, 7].iter().map(|i| Identifier::try_from(*i).unwrap()).collect();
    for (nm, n, t, list) in [
        ("too-few", 4u16, 2u16, ids[..3].to_vec()),
        ("too-many", 3, 2, ids.clone()),
        ("empty", 3, 2, vec![]),
        ("duplicate", 4, 2, vec![ids[0], ids[1], ids[1], ids[3]]),
        ("duplicate-adjacent-threshold", 3, 3, vec![ids[2], ids[2], ids[0]]),
        // both faults at once: too long, but exactly n distinct entries (the repeats would collapse in a map)
        ("too-many-with-repeat", 3, 2, vec![ids[0], ids[1], ids[2], ids[2]]),
        ("too-many-with-repeats", 3, 3, vec![ids[0], ids[1], ids[0], ids[2], ids[1]]),
        ("too-many-repeat-first", 2, 2, vec![ids[3], ids[3], ids[0]]),
        // and the mirror image: right length, too few distinct entries
        ("all-equal", 3, 2, vec![ids[1], ids[1], ids[1]]),
    ] {
        if C::api_split(&key, n, t, IdentifierList::Custom(&list), &mut rng).is_ok() {
            ctx.viol("parameter-validation", &format!("identifier-list-{nm}"), json!({"n": n, "t": t}));
        }
        ctx.count("identifier_list_cases");
        ctx.class(format!("params/idlist/{nm}"));
    }
    // a list whose length exceeds the requested count by exactly 65536 (the count is a u16)
    {
        let many: Vec<Identifier<C>> = (0..65_536u64 + 3).map(|i| Identifier::<C>::new(sc_u64::<C>(1_000_000 + i)).unwrap()).collect();
        for (n, t) in [(3u16, 2u16), (2, 2)] {
            let list = &many[..65_536 + n as usize];
            match C::api_split(&key, n, t, IdentifierList::Custom(list), &mut rng) {
                Err(_) => {}
                Ok((shares, _)) => ctx.viol("parameter-validation", "identifier-list-count-wraps-u16", json!({"n": n, "t": t, "identifiers": list.len(), "shares_returned": shares.len()})),
            }
            ctx.count("identifier_list_cases");
        }
        ctx.class("params/idlist/count-wraps-u16");
    }
    if C::api_split(&key, 4, 3, IdentifierList::Custom(&ids), &mut rng).is_err() {
        ctx.viol("parameter-validation", "valid-refused", json!({"what": "custom list with boundary identifiers 1 and 65535"}));
    }
    if Identifier::<C>::try_from(0u16).is_ok() {
        ctx.viol("parameter-validation", "zero-identifier", json!({}));
    }
    for v in [1u16, 255, 256, 65535] {
        match Identifier::<C>::try_from(v) {
            Ok(id) => {
                if id.to_scalar() != sc_u64::<C>(v as u64) {
                    ctx.viol("parameter-validation", "identifier-value", json!({"v": v}));
                }
            }
            Err(_) => ctx.viol("parameter-validation", "valid-refused", json!({"identifier": v})),
        }
    }
}
