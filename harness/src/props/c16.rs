//! C16 — all secret randomness is drawn fresh from the caller's source and nowhere else.
//!
//! For each entry point that takes a random source: (a) same stream -> identical outputs,
//! (b) other stream -> every random-derived observable changes, (c) observables of one call are
//! pairwise distinct, (d) taint map by perturbing one draw at a time: no dead draw, and the
//! independent observables can each be given a private draw, (e) randomizer seed == drawn bytes,
//! (f) batch verification draws at least once per item.

use std::collections::{BTreeMap, BTreeSet};

use frost_core::keys::repairable;
use frost_core::keys::{IdentifierList, refresh};
use frost_core::{Identifier, SigningKey, batch};
use frost_rerandomized::RandomizedParams;
use serde_json::json;

use crate::alg::*;
use crate::proto::*;
use crate::rng::TraceRng;
use crate::{Ctx, Suite};

/// what one call exposes
struct Obs {
    /// random-derived observables (name, bytes)
    vals: Vec<(String, Vec<u8>)>,
    /// number of them that are independent (the others are determined by the rest)
    indep: usize,
    /// every output byte of the call (reproducibility)
    all: Vec<u8>,
}

pub fn run<C: Suite>(ctx: &mut Ctx) {
    let slow = C::NAME == "ed448";
    let max_n: u16 = match (ctx.quick(), slow) {
        (true, true) => 4,
        (true, false) => 7,
        (false, true) => 8,
        (false, false) => 14,
    };
    let entries = ["generate_with_dealer", "split", "dkg_part1", "compute_refreshing_shares", "refresh_dkg_part1", "repair_share_part1", "signing_key_new", "signing_key_sign", "randomized_params", "batch_verify"];
    for e in entries {
        for (n, t) in crate::gen_::shapes(max_n) {
            let shape_free = matches!(e, "signing_key_new" | "signing_key_sign");
            if shape_free && !(n == 2 && t == 2) {
                continue;
            }
            if e == "repair_share_part1" && n <= t {
                continue;
            }
            if e == "batch_verify" && t != 2 {
                continue;
            }
            if ctx.quick() && slow && !shape_free && e != "dkg_part1" && e != "repair_share_part1" && (n + t) % 2 == 1 {
                continue;
            }
            if !ctx.item(&format!("{e} n={n} t={t}")) {
                continue;
            }
            ctx.guard(|ctx| item::<C>(ctx, e, n, t));
        }
    }
    // far beyond small shapes: every further coefficient costs as many bytes of the source as the previous one, and the
    // published values that come from distinct draws stay pairwise distinct
    if ctx.item("large thresholds: draws per coefficient") {
        ctx.guard(|ctx| large_thresholds::<C>(ctx));
    }
}

fn large_thresholds<C: Suite>(ctx: &mut Ctx) {
    let slow = C::NAME == "ed448";
    let ts: Vec<u16> = if slow { vec![2, 3, 34, 35] } else { vec![2, 3, 33, 34, 40, 41, 70] };
    let me = Identifier::<C>::try_from(1u16).unwrap();
    let mut per: BTreeMap<&str, Vec<(u16, usize)>> = BTreeMap::new();
    for &t in &ts {
        // dealer keygen (n = t), DKG part 1, distributed refresh part 1
        let mut r = ctx.rng("large-dealer");
        if let Ok((shares, _)) = C::api_generate_with_dealer(t, t, frost_core::keys::IdentifierList::Default, &mut r) {
            per.entry("generate_with_dealer").or_default().push((t, r.total()));
            let co = shares.values().next().unwrap().commitment().coefficients().to_vec();
            let distinct: BTreeSet<Vec<u8>> = co.iter().filter_map(|c| el_bytes::<C>(&c.value())).collect();
            if distinct.len() != t as usize {
                ctx.viol("repeated-random-value", "generate_with_dealer/large-threshold", json!({"t": t, "distinct_commitment_entries": distinct.len()}));
            }
        }
        let mut r = ctx.rng("large-dkg");
        if let Ok((_, pk)) = C::api_dkg_part1(me, t, t, &mut r) {
            per.entry("dkg_part1").or_default().push((t, r.total()));
            let distinct: BTreeSet<Vec<u8>> = pk.commitment().coefficients().iter().filter_map(|c| el_bytes::<C>(&c.value())).collect();
            if distinct.len() != t as usize {
                ctx.viol("repeated-random-value", "dkg_part1/large-threshold", json!({"t": t, "distinct_commitment_entries": distinct.len()}));
            }
        }
        let mut r = ctx.rng("large-refresh");
        if let Ok((_, pk)) = C::api_refresh_dkg_part1(me, t, t, &mut r) {
            per.entry("refresh_dkg_part1").or_default().push((t, r.total()));
            let distinct: BTreeSet<Vec<u8>> = pk.commitment().coefficients().iter().filter_map(|c| el_bytes::<C>(&c.value())).collect();
            if distinct.len() != t as usize - 1 {
                ctx.viol("repeated-random-value", "refresh_dkg_part1/large-threshold", json!({"t": t, "distinct_commitment_entries": distinct.len()}));
            }
        }
        ctx.count("large_threshold_runs");
    }
    // repair: one delta per helper
    let hs: Vec<u16> = if slow { vec![3, 4, 34, 35] } else { vec![3, 4, 33, 34, 40, 41] };
    let mut kr = ctx.rng("large-repair-keys");
    if let Ok(g) = dealer_group::<C>(*hs.last().unwrap() + 1, 2, None, None, &mut kr) {
        let lost = g.ids[g.ids.len() - 1];
        for &h in &hs {
            let helpers: Vec<Identifier<C>> = g.ids.iter().take(h as usize).copied().collect();
            let mut r = ctx.rng("large-repair");
            if let Ok(deltas) = C::api_repair_part1(&helpers, &g.kps[&helpers[0]], &mut r, lost) {
                per.entry("repair_share_part1").or_default().push((h, r.total()));
                let distinct: BTreeSet<Vec<u8>> = deltas.values().map(|d| d.serialize()).collect();
                if distinct.len() != h as usize {
                    ctx.viol("repeated-random-value", "repair_share_part1/many-helpers", json!({"helpers": h, "distinct_deltas": distinct.len()}));
                }
            }
        }
    }
    for (entry, v) in per {
        // bytes(k) = a + b*k: the slope between the two smallest sizes must hold for every other pair
        if v.len() < 3 {
            continue;
        }
        let (k0, b0) = v[0];
        let (k1, b1) = v[1];
        let slope = (b1 as i64 - b0 as i64) / (k1 as i64 - k0 as i64);
        for &(k, b) in &v[2..] {
            let want = b0 as i64 + slope * (k as i64 - k0 as i64);
            if b as i64 != want {
                ctx.viol("random-bytes-per-coefficient", entry, json!({"sizes_and_bytes": v, "expected_at": k, "expected_bytes": want, "got": b}));
                break;
            }
        }
        ctx.count("draws_per_coefficient_checks");
        ctx.class(format!("large/{entry}"));
    }
}

/// Execute one entry point on `rng`; fixed inputs come from `fix` (seeded once per item).
fn call<C: Suite>(entry: &str, n: u16, t: u16, fix: &Fixed<C>, rng: &mut TraceRng) -> Result<Obs, String> {
    let mut vals: Vec<(String, Vec<u8>)> = vec![];
    let mut all: Vec<u8> = vec![];
    let indep;
    let eb = |e: &El<C>| el_bytes::<C>(e).unwrap_or_else(|| b"identity".to_vec());
    match entry {
        "generate_with_dealer" | "split" => {
            let (shares, pkp) = if entry == "split" {
                C::api_split(&fix.key, n, t, IdentifierList::Default, rng)
            } else {
                C::api_generate_with_dealer(n, t, IdentifierList::Default, rng)
            }
            .map_err(|e| format!("{e:?}"))?;
            let comm = shares.values().next().unwrap().commitment().clone();
            for (k, c) in comm.coefficients().iter().enumerate() {
                if k == 0 && entry == "split" {
                    continue; // C_0 is the given key
                }
                vals.push((format!("commitment[{k}]"), eb(&c.value())));
            }
            indep = vals.len();
            for s in shares.values() {
                all.extend(s.serialize().map_err(|e| format!("{e:?}"))?);
            }
            all.extend(pkp.serialize().map_err(|e| format!("{e:?}"))?);
        }
        "dkg_part1" | "refresh_dkg_part1" => {
            let (sec, pkg) = if entry == "dkg_part1" {
                C::api_dkg_part1(fix.ids[0], n, t, &mut *rng)
            } else {
                C::api_refresh_dkg_part1(fix.ids[0], n, t, &mut *rng)
            }
            .map_err(|e| format!("{e:?}"))?;
            for (k, c) in pkg.commitment().coefficients().iter().enumerate() {
                vals.push((format!("commitment[{k}]"), eb(&c.value())));
            }
            vals.push(("pok.R".into(), eb(pkg.proof_of_knowledge().R())));
            indep = vals.len();
            all.extend(sec.serialize().map_err(|e| format!("{e:?}"))?);
            all.extend(pkg.serialize().map_err(|e| format!("{e:?}"))?);
        }
        "compute_refreshing_shares" => {
            let (shares, pkp) = C::api_compute_refreshing_shares(fix.grp.pkp.clone(), &fix.grp.ids, rng).map_err(|e| format!("{e:?}"))?;
            for (k, c) in shares[0].commitment().coefficients().iter().enumerate() {
                vals.push((format!("commitment[{}]", k + 1), eb(&c.value())));
            }
            indep = vals.len();
            for s in &shares {
                all.extend(s.serialize().map_err(|e| format!("{e:?}"))?);
            }
            all.extend(pkp.serialize().map_err(|e| format!("{e:?}"))?);
        }
        "repair_share_part1" => {
            let helpers: Vec<Identifier<C>> = fix.grp.ids[1..].to_vec();
            let deltas = C::api_repair_part1(&helpers, &fix.grp.kps[&helpers[0]], rng, fix.grp.ids[0]).map_err(|e| format!("{e:?}"))?;
            for (to, d) in &deltas {
                vals.push((format!("delta->{}", id_hex::<C>(to)), d.serialize()));
                all.extend(d.serialize());
            }
            indep = vals.len() - 1;
        }
        "signing_key_new" => {
            let k = SigningKey::<C>::new(rng);
            vals.push(("key".into(), k.serialize()));
            all.extend(k.serialize());
            indep = 1;
        }
        "signing_key_sign" => {
            let sig = fix.key.sign(&mut *rng, b"c16 message");
            vals.push(("R".into(), eb(sig.R())));
            all.extend(sig.serialize().map_err(|e| format!("{e:?}"))?);
            indep = 1;
        }
        "randomized_params" => {
            let (params, seed) = RandomizedParams::<C>::new_from_commitments(fix.grp.pkp.verifying_key(), &fix.comms, &mut *rng).map_err(|e| format!("{e:?}"))?;
            vals.push(("seed".into(), seed.clone()));
            vals.push(("randomizer".into(), params.randomizer().serialize()));
            indep = 1;
            all.extend(&seed);
            all.extend(params.randomizer().serialize());
            all.extend(eb(params.randomizer_element()));
            all.extend(params.randomized_verifying_key().serialize().map_err(|e| format!("{e:?}"))?);
            // (e) the seed is exactly the drawn bytes, of scalar length
            if seed.len() != C::SCALAR_LEN || seed != rng.stream {
                return Err(format!("SEED-MISMATCH len={} drawn={}", seed.len(), rng.stream.len()));
            }
        }
        "batch_verify" => {
            let mut v = batch::Verifier::<C>::new();
            for (vk, sig, msg) in &fix.items {
                v.queue(batch::Item::<C>::new(*vk, *sig, msg).map_err(|e| format!("{e:?}"))?);
            }
            let r = v.verify(&mut *rng);
            all.push(r.is_ok() as u8);
            indep = 0;
        }
        other => return Err(format!("unknown entry {other}")),
    }
    Ok(Obs { vals, indep, all })
}

struct Fixed<C: Suite> {
    key: SigningKey<C>,
    ids: Vec<Identifier<C>>,
    grp: Grp<C>,
    comms: IdMap<C, frost_core::round1::SigningCommitments<C>>,
    items: Vec<(frost_core::VerifyingKey<C>, frost_core::Signature<C>, Vec<u8>)>,
}

fn item<C: Suite>(ctx: &mut Ctx, entry: &str, n: u16, t: u16) {
    let mut frng = ctx.rng("fixed");
    let key = SigningKey::<C>::new(&mut frng);
    let Ok(grp) = dealer_group::<C>(n, t, None, None, &mut frng) else { return };
    let (_, comms) = commit_all(&grp, &grp.ids[..t as usize], &mut frng);
    let mut items = vec![];
    for i in 0..n as usize {
        let k = SigningKey::<C>::new(&mut frng);
        let msg = vec![i as u8; 5 + i];
        let sig = k.sign(&mut frng, &msg);
        items.push((frost_core::VerifyingKey::<C>::from(&k), sig, msg));
        // every second key signs a second message right away: consecutive items under one key still need a draw each
        if i % 2 == 1 {
            let msg = vec![0xa5; 3 + i];
            let sig = k.sign(&mut frng, &msg);
            items.push((frost_core::VerifyingKey::<C>::from(&k), sig, msg));
        }
    }
    let fix = Fixed { key, ids: grp.ids.clone(), grp, comms, items };
    let d = |what: &str, extra: serde_json::Value| json!({"what": what, "entry": entry, "n": n, "t": t, "extra": extra});

    // other kinds of source: only reproducibility is judged (a constant source legitimately repeats values)
    for (sname, mk) in [("counter", Box::new(|| TraceRng::counter(3)) as Box<dyn Fn() -> TraceRng>), ("period33", Box::new(|| TraceRng::period((1..=33u8).collect())))] {
        let (mut a, mut b) = (mk(), mk());
        if let (Ok(x), Ok(y)) = (call::<C>(entry, n, t, &fix, &mut a), call::<C>(entry, n, t, &fix, &mut b)) {
            if x.all != y.all || a.stream != b.stream {
                ctx.viol("hidden-entropy", &format!("{entry}/{sname}"), d("two runs on the same source output differ", json!({})));
            }
            ctx.count("reproducibility_checks");
        }
    }

    let mut dead_by_seed: Vec<Vec<usize>> = vec![];
    let mut unmatched_by_seed: Vec<Vec<String>> = vec![];
    let mut prev_vals: Option<Vec<(String, Vec<u8>)>> = None;
    for s in 0..3u8 {
        let base_rng = ctx.rng(&format!("stream-{s}"));
        // (a) reproducible bit for bit from the same source output
        let mut r1 = base_rng.clone();
        let o1 = match call::<C>(entry, n, t, &fix, &mut r1) {
            Ok(o) => o,
            Err(e) if e.starts_with("SEED-MISMATCH") => return ctx.viol("randomizer-seed", entry, d("seed is not exactly the bytes drawn, of scalar length", json!({"err": e}))),
            Err(e) => return ctx.viol("honest-call-failed", entry, d("call failed", json!({"err": e}))),
        };
        let mut r2 = base_rng.clone();
        let o2 = call::<C>(entry, n, t, &fix, &mut r2).ok();
        if o2.as_ref().map(|o| &o.all) != Some(&o1.all) || r1.stream != r2.stream {
            ctx.viol("hidden-entropy", entry, d("two runs on the same source output differ", json!({"draws": r1.n_calls()})));
        }
        // replaying the recorded bytes through a scripted source gives the same outputs too
        let mut r3 = TraceRng::script(r1.stream.clone());
        let o3 = call::<C>(entry, n, t, &fix, &mut r3).ok();
        if o3.as_ref().map(|o| &o.all) != Some(&o1.all) || r3.script_overrun {
            ctx.viol("hidden-entropy", &format!("{entry}/scripted"), d("replaying the recorded byte stream does not reproduce the outputs", json!({"overrun": r3.script_overrun})));
        }
        ctx.count("reproducibility_checks");
        // (c) observables of one call pairwise distinct
        for i in 0..o1.vals.len() {
            for j in 0..i {
                if o1.vals[i].1 == o1.vals[j].1 {
                    ctx.viol("repeated-random-value", entry, d("two random-derived values of one call coincide", json!({"a": o1.vals[j].0, "b": o1.vals[i].0, "value": hex::encode(&o1.vals[i].1)})));
                }
            }
        }
        // (b) another source output changes every one of them
        if let Some(pv) = &prev_vals {
            for ((na, a), (_, b)) in pv.iter().zip(o1.vals.iter()) {
                if a == b {
                    ctx.viol("value-independent-of-source", entry, d("a random-derived value is the same under two different source outputs", json!({"observable": na, "value": hex::encode(a)})));
                }
                ctx.count("cross_stream_comparisons");
            }
        }
        prev_vals = Some(o1.vals.clone());
        // (f) batch verification: at least one draw per item
        if entry == "batch_verify" {
            // one blinder of at least 128 bits per item (counted in bytes, not in requests)
            if r1.total() < 16 * fix.items.len() {
                ctx.viol("batch-blinders", "too-few-draws", d("fewer than 16 random bytes per batch item were drawn", json!({"requests": r1.n_calls(), "bytes": r1.total(), "items": fix.items.len()})));
            }
            if o1.all != vec![1u8] {
                ctx.viol("honest-call-failed", entry, d("valid batch rejected", json!({})));
            }
            // every item gets its own blinder whatever key it is under: a batch of as many items with pairwise distinct keys
            // consumes exactly as much of the source (the fixture above repeats every second key)
            {
                let mut kr = ctx.rng("distinct-keys");
                let mut v = batch::Verifier::<C>::new();
                for i in 0..fix.items.len() {
                    let k = SigningKey::<C>::new(&mut kr);
                    let msg = vec![i as u8; 4 + i];
                    let sig = k.sign(&mut kr, &msg);
                    if let Ok(it) = batch::Item::<C>::new(frost_core::VerifyingKey::<C>::from(&k), sig, &msg) {
                        v.queue(it);
                    }
                }
                let mut r2 = ctx.rng(&format!("stream-{}", 0));
                let ok = v.verify(&mut r2).is_ok();
                if !ok {
                    ctx.viol("honest-call-failed", entry, d("valid batch (distinct keys) rejected", json!({})));
                } else if r2.total() != r1.total() {
                    ctx.viol("batch-blinders", "draws-depend-on-keys", d("a batch with repeated keys consumes another amount of randomness than a batch of the same size with distinct keys", json!({"repeated_keys_bytes": r1.total(), "distinct_keys_bytes": r2.total(), "items": fix.items.len()})));
                }
            }
            ctx.note("batch_draws", json!({"items": fix.items.len(), "draws": r1.n_calls(), "bytes": r1.total()}));
            ctx.count("batch_draw_checks");
            continue;
        }
        // (d) taint map over 16-byte blocks of the consumed byte stream (not over calls: the verdict must not depend
        //     on how the library chunks its requests to the source)
        const BLOCK: usize = 16;
        let nd = r1.total().div_ceil(BLOCK);
        let mut affects: Vec<Vec<bool>> = vec![];
        for k in 0..nd {
            let mut rp = base_rng.clone();
            rp.perturb_range = Some((k * BLOCK, (k + 1) * BLOCK));
            match call::<C>(entry, n, t, &fix, &mut rp) {
                Ok(op) => {
                    let row: Vec<bool> = if op.vals.len() == o1.vals.len() { o1.vals.iter().zip(op.vals.iter()).map(|(a, b)| a.1 != b.1).collect() } else { vec![true; o1.vals.len()] };
                    affects.push(row);
                }
                Err(_) => affects.push(vec![true; o1.vals.len()]),
            }
            ctx.count("perturbed_runs");
        }
        let dead: Vec<usize> = (0..nd).filter(|k| !affects[*k].iter().any(|x| *x)).collect();
        // independent observables each need a private draw; try every way of leaving out the dependent ones
        let m = o1.vals.len();
        let mut best_unmatched: Option<Vec<String>> = None;
        for sel in crate::gen_::combos(m, o1.indep) {
            let mut unmatched = vec![];
            for &o in &sel {
                let private = (0..nd).any(|k| affects[k][o] && sel.iter().all(|o2| *o2 == o || !affects[k][*o2]));
                if !private {
                    unmatched.push(o1.vals[o].0.clone());
                }
            }
            if best_unmatched.as_ref().map(|b| unmatched.len() < b.len()).unwrap_or(true) {
                best_unmatched = Some(unmatched);
            }
        }
        dead_by_seed.push(dead);
        unmatched_by_seed.push(best_unmatched.unwrap_or_default());
        if s == 0 {
            let map: BTreeMap<String, Vec<String>> = (0..nd).map(|k| (format!("bytes[{:04}..{:04}]", k * BLOCK, ((k + 1) * BLOCK).min(r1.total())), o1.vals.iter().enumerate().filter(|(o, _)| affects[k][*o]).map(|(_, v)| v.0.clone()).collect())).collect();
            if ctx.samples.len() < 3 {
                ctx.sample(json!({"entry": entry, "n": n, "t": t, "requests_to_source": r1.n_calls(), "bytes": r1.total(), "taint_map_16_byte_blocks": map}));
            }
        }
    }
    // A draw that reduces to the zero scalar: keys and proof / signing nonces are sampled non-zero, so the sampler must go
    // back to the source. The value must then still depend on what the source delivers next (no fixed fallback).
    let nonzero_sampled: &[&str] = match entry {
        "generate_with_dealer" => &["commitment[0]"],
        "dkg_part1" => &["commitment[0]", "pok.R"],
        "refresh_dkg_part1" => &["pok.R"],
        "signing_key_new" => &["key"],
        "signing_key_sign" => &["R"],
        _ => &[],
    };
    if !nonzero_sampled.is_empty() {
        let ndraws = {
            let mut r = ctx.rng("stream-0");
            let _ = call::<C>(entry, n, t, &fix, &mut r);
            r.n_calls()
        };
        for k in 0..ndraws {
            let mut ra = ctx.rng("zero-a");
            ra.zero_call = Some(k);
            let mut rb = ctx.rng("zero-b");
            rb.zero_call = Some(k);
            // a zero *coefficient* is legitimate (and makes the commitment unencodable): such runs return Err and are skipped
            let (Ok(oa), Ok(ob)) = (call::<C>(entry, n, t, &fix, &mut ra), call::<C>(entry, n, t, &fix, &mut rb)) else {
                ctx.count("zero_draw_runs_unencodable");
                continue;
            };
            for name in nonzero_sampled {
                let va = oa.vals.iter().find(|v| v.0 == *name);
                let vb = ob.vals.iter().find(|v| v.0 == *name);
                if let (Some(va), Some(vb)) = (va, vb) {
                    if va.1 == vb.1 {
                        ctx.viol("fixed-fallback-value", entry, d("after a draw that reduces to zero, a non-zero-sampled secret no longer depends on the source (same value under two different streams)",
                            json!({"zeroed_draw": k, "observable": name, "value": hex::encode(&va.1)})));
                    }
                }
            }
            ctx.count("zero_draw_runs");
        }
    }
    if entry != "batch_verify" {
        // a rejection-sampling retry is a property of particular bytes; a defect is seed-independent
        let dead_all: Vec<usize> = dead_by_seed[0].iter().filter(|k| dead_by_seed.iter().all(|d| d.contains(k))).copied().collect();
        if !dead_all.is_empty() {
            ctx.viol("dead-draw", entry, d("a 16-byte block drawn from the source influences no output, under three different streams", json!({"blocks": dead_all})));
        }
        if unmatched_by_seed.iter().all(|u| !u.is_empty()) {
            ctx.viol("shared-randomness", entry, d("independent secret values cannot each be traced to a draw of their own", json!({"without_private_draw": unmatched_by_seed[0]})));
        }
        ctx.count("taint_maps");
    }
    ctx.class(format!("{entry}/n={n}/t={t}"));
}
