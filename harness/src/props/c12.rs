//! C12 — wire encodings round-trip, are canonical, and reject everything else.

use serde_json::{Value, json};

use crate::alg::*;
use crate::corpus::{Corpus, harvest};
use crate::each_wire_type;
use crate::mutate::*;
use crate::wire::Wire;
use crate::{Ctx, Suite};

pub fn crc32(data: &[u8]) -> u32 {
    let mut crc = 0xffff_ffffu32;
    for &b in data {
        crc ^= b as u32;
        for _ in 0..8 {
            crc = if crc & 1 == 1 { (crc >> 1) ^ 0xedb8_8320 } else { crc >> 1 };
        }
    }
    !crc
}
pub fn header_bytes<C: Suite>() -> Vec<u8> {
    let mut h = vec![0u8];
    h.extend_from_slice(&crc32(C::ID.as_bytes()).to_be_bytes());
    h
}

pub fn class_of(name: &str) -> &'static str {
    match name {
        "SigningShare" | "SignatureShare" | "Nonce" | "Delta" | "Sigma" | "Randomizer" => "scalar",
        "Identifier" | "SigningKey" => "nonzero-scalar",
        "VerifyingKey" | "VerifyingShare" | "NonceCommitment" | "CoefficientCommitment" => "element",
        "Signature" => "signature",
        _ => "container",
    }
}

/// encoding of the group order (one more than the largest scalar) in the suite's scalar format
pub fn order_bytes<C: Suite>() -> Vec<u8> {
    let mut b = sc_int_be::<C>(&neg::<C>(one::<C>()));
    for i in (0..b.len()).rev() {
        let (v, c) = b[i].overflowing_add(1);
        b[i] = v;
        if !c {
            break;
        }
    }
    if C::LE {
        b.reverse();
    }
    b
}

pub fn run<C: Suite>(ctx: &mut Ctx) {
    let slow = C::NAME == "ed448";
    // round trips on values from real runs
    let shapes_v: Vec<(u16, u16, &str)> = if ctx.quick() {
        vec![(2, 2, "default"), (3, 2, "sparse-u16"), (4, 3, "derived"), (5, 3, "big-scalar")]
    } else {
        vec![(2, 2, "default"), (3, 2, "sparse-u16"), (4, 3, "derived"), (5, 3, "big-scalar"), (5, 5, "mixed"), (7, 4, "default"), (9, 5, "derived"), (12, 7, "sparse-u16"), (20, 2, "big-scalar")]
    };
    for (n, t, kind) in shapes_v.iter().copied() {
        if slow && n > 7 {
            continue;
        }
        if !ctx.item(&format!("roundtrip n={n} t={t} ids={kind}")) {
            continue;
        }
        ctx.guard(|ctx| {
            let mut co = Corpus::<C>::default();
            let mut rng = ctx.rng("harvest");
            let mut p = ctx.pick("harvest");
            if let Err(e) = harvest::<C>(&mut co, n, t, kind, &mut rng, &mut p) {
                return ctx.viol("honest-run-failed", "harvest", json!({"err": e}));
            }
            each_wire_type!(co, roundtrip, ctx);
            // the list form of a commitment (one byte string per coefficient)
            for c in &co.vss_commitment {
                match c.serialize() {
                    Ok(list) => match frost_core::keys::VerifiableSecretSharingCommitment::<C>::deserialize(list.iter()) {
                        Ok(c2) => {
                            if &c2 != c || c2.serialize().ok().as_ref() != Some(&list) {
                                ctx.viol("roundtrip", "binary/VerifiableSecretSharingCommitment-list-form", json!({"list": list.iter().map(hex::encode).collect::<Vec<_>>()}));
                            }
                        }
                        Err(e) => ctx.viol("roundtrip", "binary-decode/VerifiableSecretSharingCommitment-list-form", json!({"err": format!("{e:?}")})),
                    },
                    Err(e) => ctx.viol("roundtrip", "binary-encode/VerifiableSecretSharingCommitment-list-form", json!({"err": format!("{e:?}")})),
                }
                // a whole-form string whose length is not a multiple of the element size is refused
                if let Ok(mut w) = c.serialize_whole() {
                    w.push(2);
                    if frost_core::keys::VerifiableSecretSharingCommitment::<C>::deserialize_whole(&w).is_ok() {
                        ctx.viol("wrong-length-accepted", "VerifiableSecretSharingCommitment-whole-form", json!({"len": w.len()}));
                    }
                }
                ctx.count("binary_roundtrips");
            }
        });
    }
    // encodings grow with the threshold: round trips of the DKG packages and dealer shares for large t
    if ctx.item("roundtrip large thresholds") {
        ctx.guard(|ctx| {
            let mut rng = ctx.rng("large");
            let ts: Vec<u16> = if ctx.quick() { if slow { vec![16, 40] } else { vec![16, 33, 130] } } else { vec![16, 33, 130, 300, 1000] };
            for t in ts {
                let mut co = Corpus::<C>::default();
                let id = frost_core::Identifier::<C>::try_from(1u16).unwrap();
                if let Ok((s, pk)) = C::api_dkg_part1(id, t, t, &mut rng) {
                    co.dkg_r1_secret.push(s);
                    co.dkg_r1_package.push(pk);
                }
                if let Ok((s, pk)) = C::api_refresh_dkg_part1(id, t, t, &mut rng) {
                    co.vss_commitment.push(pk.commitment().clone());
                    co.dkg_r1_secret.push(s);
                    co.dkg_r1_package.push(pk);
                }
                if t <= 40 || (!slow && t <= 130) {
                    if let Ok(g) = crate::proto::dealer_group::<C>(t, t, None, None, &mut rng) {
                        co.secret_share.push(g.shares.values().next().unwrap().clone());
                        co.public_key_package.push(g.pkp.clone());
                    }
                }
                // the threshold *field* of the packages at and beyond the one-byte / two-byte varint boundaries, on the group
                // of a small sharing (the field is what is encoded; the sharing does not have to be that large)
                if let Ok(g) = crate::proto::dealer_group::<C>(3, 2, None, None, &mut rng) {
                    for tf in [127u16, 128, 255, 256, 257, 667, 16383, 16384, 65535] {
                        co.public_key_package.push(frost_core::keys::PublicKeyPackage::<C>::new(g.pkp.verifying_shares().clone(), *g.pkp.verifying_key(), Some(tf)));
                        let kp = &g.kps[&g.ids[0]];
                        co.key_package.push(frost_core::keys::KeyPackage::<C>::new(*kp.identifier(), *kp.signing_share(), *kp.verifying_share(), *kp.verifying_key(), tf));
                    }
                }
                each_wire_type!(co, roundtrip, ctx);
                ctx.class(format!("roundtrip/large-threshold/t={t}"));
            }
            // maps with more than 127 entries (multi-byte length prefixes): public key package, signing package
            let nbig: u16 = if slow { 130 } else { 300 };
            if let Ok(g) = crate::proto::dealer_group::<C>(nbig, 2, None, None, &mut rng) {
                let mut co = Corpus::<C>::default();
                co.public_key_package.push(g.pkp.clone());
                let signers: Vec<_> = g.ids.iter().take(nbig as usize - 1).copied().collect();
                let (_, comms) = crate::proto::commit_all(&g, &signers, &mut rng);
                co.signing_package.push(frost_core::SigningPackage::new(comms, b"many signers"));
                each_wire_type!(co, roundtrip, ctx);
                ctx.class(format!("roundtrip/large-map/n={nbig}"));
            }
        });
    }
    // primitive decoders: sweeps; one item per (type) so that shards share the load
    for tix in 0..13usize {
        if !ctx.item(&format!("primitive-sweep type#{tix}")) {
            continue;
        }
        ctx.guard(|ctx| {
            let mut co = Corpus::<C>::default();
            let mut rng = ctx.rng("harvest");
            let mut p = ctx.pick("harvest");
            if harvest::<C>(&mut co, 3, 2, "sparse-u16", &mut rng, &mut p).is_err() {
                return;
            }
            let mut k = 0usize;
            each_wire_type!(co, sweep_if, ctx, &mut k, tix);
        });
    }
    if ctx.item("adversarial-from-reference") {
        ctx.guard(|ctx| adversarial::<C>(ctx));
    }
    for part in 0..4usize {
        if ctx.item(&format!("containers part{part}")) {
            ctx.guard(|ctx| {
                let mut co = Corpus::<C>::default();
                let mut rng = ctx.rng("harvest");
                let mut p = ctx.pick("harvest");
                let (n, t, kind) = [(3u16, 2u16, "default"), (4, 3, "derived"), (3, 3, "sparse-u16"), (5, 2, "big-scalar")][part];
                if harvest::<C>(&mut co, n, t, kind, &mut rng, &mut p).is_err() {
                    return;
                }
                let prims = primitive_encodings::<C>(&co);
                each_wire_type!(co, containers, ctx, &prims);
            });
        }
    }
    if ctx.item("cross-suite") {
        ctx.guard(|ctx| match C::NAME {
            "ed25519" => cross::<C, frost_ristretto255::Ristretto255Sha512>(ctx),
            "ristretto255" => cross::<C, frost_ed25519::Ed25519Sha512>(ctx),
            "secp256k1" => cross::<C, frost_secp256k1_tr::Secp256K1Sha256TR>(ctx),
            "secp256k1-tr" => cross::<C, frost_secp256k1::Secp256K1Sha256>(ctx),
            "p256" => cross::<C, frost_secp256k1::Secp256K1Sha256>(ctx),
            _ => cross::<C, frost_ed25519::Ed25519Sha512>(ctx),
        });
    }
}

fn eq_value<C: Suite, T: Wire<C>>(a: &T, b: &T) -> bool {
    if a == b {
        return true;
    }
    // S1: a BIP-340 encoding denotes (x(R), z); in-memory R parity is not part of the value
    if C::TAPROOT && T::NAME == "Signature" {
        return a.enc().ok() == b.enc().ok();
    }
    false
}

fn roundtrip<C: Suite, T: Wire<C>>(vals: &[T], ctx: &mut Ctx) {
    for v in vals {
        let d = |what: &str, extra: Value| json!({"what": what, "type": T::NAME, "extra": extra});
        match v.enc() {
            Ok(b) => match T::dec(&b) {
                Ok(v2) => {
                    if !eq_value::<C, T>(v, &v2) {
                        ctx.viol("roundtrip", &format!("binary/{}", T::NAME), d("decode(encode(v)) != v", json!({"bytes": hex::encode(&b)})));
                    }
                    if &v2 != v {
                        ctx.count("taproot_signature_parity_differs_in_memory");
                    }
                    if v2.enc().ok().as_deref() != Some(&b[..]) {
                        ctx.viol("roundtrip", &format!("binary-reencode/{}", T::NAME), d("encode(decode(encode(v))) != encode(v)", json!({"bytes": hex::encode(&b)})));
                    }
                }
                Err(e) => ctx.viol("roundtrip", &format!("binary-decode/{}", T::NAME), d("own encoding does not decode", json!({"bytes": hex::encode(&b), "err": e}))),
            },
            Err(e) => ctx.viol("roundtrip", &format!("binary-encode/{}", T::NAME), d("value from an honest run does not encode", json!({"err": e}))),
        }
        if T::HAS_JSON {
            match v.to_json() {
                Ok(s) => match T::from_json(&s) {
                    Ok(v2) => {
                        if !eq_value::<C, T>(v, &v2) {
                            ctx.viol("roundtrip", &format!("json/{}", T::NAME), d("from_json(to_json(v)) != v", json!({"json": s})));
                        }
                        if v2.to_json().ok().as_deref() != Some(&s[..]) {
                            ctx.viol("roundtrip", &format!("json-reencode/{}", T::NAME), d("json re-encoding differs", json!({"json": s})));
                        }
                    }
                    Err(e) => ctx.viol("roundtrip", &format!("json-decode/{}", T::NAME), d("own JSON does not decode", json!({"json": s, "err": e}))),
                },
                Err(e) => ctx.viol("roundtrip", &format!("json-encode/{}", T::NAME), d("value does not encode to JSON", json!({"err": e}))),
            }
            ctx.count("json_roundtrips");
            // a self-describing form that lost one member is not an encoding of anything. The single documented exception
            // is the threshold of a public key package (absent in packages written before it existed).
            if ctx.counts.get(&format!("json_member_deletions/{}", T::NAME)).copied().unwrap_or(0) < 40 {
                if let Some(Value::Object(obj)) = v.to_json().ok().and_then(|s| serde_json::from_str::<Value>(&s).ok()) {
                    for key in obj.keys() {
                        let mut o2 = obj.clone();
                        o2.remove(key);
                        let txt = Value::Object(o2).to_string();
                        let acc = T::from_json(&txt).is_ok();
                        let optional = T::NAME == "PublicKeyPackage" && key == "min_signers";
                        if acc && !optional {
                            ctx.viol("json-missing-member-accepted", &format!("{}/{key}", T::NAME), d("JSON form without one of its members decodes", json!({"json": txt})));
                        }
                        ctx.count(&format!("json_member_deletions/{}", T::NAME));
                        ctx.count("json_member_deletions");
                    }
                }
            }
        }
        ctx.count("binary_roundtrips");
    }
    if !vals.is_empty() {
        ctx.class(format!("roundtrip/{}", T::NAME));
    }
}

/// classify how an accepted string differs from its re-encoding
fn classify<C: Suite>(name: &str, m: &[u8], re: &[u8]) -> String {
    let cls = class_of(name);
    if m.len() != re.len() {
        return format!("{cls}/length");
    }
    let diff: Vec<usize> = (0..m.len()).filter(|i| m[*i] != re[*i]).collect();
    let sec1 = !C::LE;
    match cls {
        "element" if sec1 && diff == vec![0] => format!("element/sec1-tag-{:02x}", m[0]),
        "element" if diff.len() == 1 => format!("element/byte{}", diff[0]),
        "scalar" | "nonzero-scalar" if diff.len() == 1 => format!("scalar/byte{}-ignored", diff[0]),
        "signature" if diff.len() == 1 => {
            let rl = if C::TAPROOT { 32 } else { C::ELEM_LEN };
            if diff[0] < rl {
                if sec1 && diff[0] == 0 { format!("signature/R-sec1-tag-{:02x}", m[0]) } else { format!("signature/R-byte{}", diff[0]) }
            } else {
                format!("signature/z-byte{}-ignored", diff[0] - rl)
            }
        }
        _ => format!("{cls}/other"),
    }
}

fn try_decode<C: Suite, T: Wire<C>>(ctx: &mut Ctx, m: &[u8], origin: &str, log_every: u64) {
    ctx.count("decodes");
    let acc = match T::dec(m) {
        Ok(v) => {
            ctx.count("accepted");
            let want_len = match class_of(T::NAME) {
                "element" => C::ELEM_LEN,
                "signature" => C::SIG_LEN,
                _ => C::SCALAR_LEN,
            };
            if m.len() != want_len {
                ctx.viol("wrong-length-accepted", T::NAME, json!({"type": T::NAME, "input": hex::encode(m), "origin": origin}));
            }
            match v.enc() {
                Ok(re) => {
                    if re != m {
                        let cls = classify::<C>(T::NAME, m, &re);
                        ctx.viol("noncanonical-accept", &cls, json!({"type": T::NAME, "input": hex::encode(m), "reencoded": hex::encode(&re), "origin": origin}));
                    }
                }
                Err(e) => ctx.viol("noncanonical-accept", &format!("{}/unencodable", class_of(T::NAME)), json!({"type": T::NAME, "input": hex::encode(m), "err": e})),
            }
            true
        }
        Err(_) => false,
    };
    let c = ctx.counts.get("decodes").copied().unwrap_or(0);
    if log_every > 0 && (c % log_every == 0 || (acc && c % 41 == 0 && log_every > 1)) {
        ctx.event(json!({"k": "dec", "type": T::NAME, "cls": class_of(T::NAME), "hex": hex::encode(m), "accepted": acc}));
        ctx.count("python_samples");
    }
}

fn sweep_if<C: Suite, T: Wire<C>>(vals: &[T], ctx: &mut Ctx, k: &mut usize, want: usize) {
    if !T::PRIMITIVE {
        return;
    }
    let mine = *k == want;
    *k += 1;
    if !mine || vals.is_empty() {
        return;
    }
    let slow = C::NAME == "ed448";
    let nvals = if ctx.quick() { 1 } else { 8 };
    let mut p = ctx.pick("sweep");
    let log_every = if ctx.quick() { 150 } else { 2000 };
    for v in vals.iter().take(nvals) {
        let Ok(b) = v.enc() else { continue };
        for m in bitflips(&b) {
            try_decode::<C, T>(ctx, &m, "bitflip", log_every);
        }
        let all_pos: Vec<usize> = (0..b.len()).collect();
        let positions: Vec<usize> = if slow && ctx.quick() && class_of(T::NAME) != "scalar" { vec![0, 1, b.len() / 2, b.len() - 2, b.len() - 1] } else { all_pos };
        for m in byte_subs(&b, &positions) {
            try_decode::<C, T>(ctx, &m, "byte-substitution", log_every);
        }
        // lengths
        for m in [b[..b.len() - 1].to_vec(), [&b[..], &[0u8][..]].concat(), vec![], [&b[..], &b[..]].concat(), b[1..].to_vec(), [&[0u8][..], &b[..]].concat()] {
            try_decode::<C, T>(ctx, &m, "length", 1);
        }
        ctx.count("values_swept");
    }
    // random strings of the right length
    let len = vals[0].enc().map(|b| b.len()).unwrap_or(32);
    let nrand = match (ctx.quick(), slow) {
        (true, true) => 500,
        (true, false) => 2000,
        (false, true) => 150_000,
        (false, false) => 2_000_000,
    };
    for _ in 0..nrand {
        let m = p.bytes(len);
        try_decode::<C, T>(ctx, &m, "random", log_every);
    }
    // boundary integers for scalar-like types
    if matches!(class_of(T::NAME), "scalar" | "nonzero-scalar") {
        let n = order_bytes::<C>();
        let mk = |be: Vec<u8>| {
            let mut v = be;
            if C::LE {
                v.reverse();
            }
            v
        };
        let nbe = {
            let mut x = n.clone();
            if C::LE {
                x.reverse();
            }
            x
        };
        let mut cands: Vec<(String, Vec<u8>, Option<bool>)> = vec![];
        cands.push(("order".into(), n.clone(), Some(false)));
        let mut nm1 = nbe.clone();
        *nm1.last_mut().unwrap() -= 1;
        cands.push(("order-1".into(), mk(nm1), Some(true)));
        let mut np1 = nbe.clone();
        *np1.last_mut().unwrap() += 1;
        cands.push(("order+1".into(), mk(np1), Some(false)));
        cands.push(("all-ff".into(), vec![0xff; n.len()], Some(false)));
        let zero_ok = class_of(T::NAME) == "scalar";
        cands.push(("zero".into(), vec![0; n.len()], Some(zero_ok)));
        let mut one_v = vec![0u8; n.len()];
        *one_v.last_mut().unwrap() = 1;
        cands.push(("one".into(), mk(one_v), Some(true)));
        for (what, m, want) in cands {
            let got = T::dec(&m).is_ok();
            if Some(got) != want {
                ctx.viol("boundary-scalar", &format!("{}/{what}", T::NAME), json!({"type": T::NAME, "input": hex::encode(&m), "accepted": got}));
            }
            try_decode::<C, T>(ctx, &m, "boundary", 1);
        }
    }
    ctx.class(format!("sweep/{}", T::NAME));
    if ctx.samples.len() < 2 {
        ctx.sample(json!({"type": T::NAME, "class": class_of(T::NAME), "valid_encoding": vals[0].enc().map(hex::encode).unwrap_or_default(),
            "explored": "every single-bit flip, every single-byte substitution, length variants, boundary integers, random strings; accepted => re-encoding must equal the input"}));
    }
}

/// inputs and verdicts supplied by the Python reference decoders
fn adversarial<C: Suite>(ctx: &mut Ctx) {
    let path = ctx.out_dir.join(format!("adversarial.{}.json", C::NAME));
    let Ok(txt) = std::fs::read_to_string(&path) else {
        ctx.count("adversarial_file_missing");
        return;
    };
    let Ok(list) = serde_json::from_str::<Vec<Value>>(&txt) else { return };
    for e in list {
        let cls = e["cls"].as_str().unwrap_or("");
        let Ok(bytes) = hex::decode(e["hex"].as_str().unwrap_or("")) else { continue };
        let accept = e["accept"].as_bool().unwrap_or(false);
        let zero = e["zero"].as_bool().unwrap_or(false);
        let why = e["why"].as_str().unwrap_or("?").to_string();
        let verdict = |ctx: &mut Ctx, name: &str, got: bool, want: bool| {
            ctx.count("reference_verdicts_compared");
            if got != want {
                ctx.viol("decoder-disagrees-with-reference", &format!("{name}/{why}"), json!({"type": name, "input": hex::encode(&bytes), "library_accepts": got, "reference_accepts": want, "why": why}));
            }
            ctx.class(format!("adversarial/{cls}/{why}"));
        };
        macro_rules! one {
            ($t:ty, $want:expr) => {{
                let got = <$t as Wire<C>>::dec(&bytes).is_ok();
                verdict(ctx, <$t as Wire<C>>::NAME, got, $want);
                try_decode::<C, $t>(ctx, &bytes, "adversarial", 0);
            }};
        }
        match cls {
            "scalar" => {
                one!(frost_core::keys::SigningShare<C>, accept);
                one!(frost_core::round2::SignatureShare<C>, accept);
                one!(frost_core::round1::Nonce<C>, accept);
                one!(frost_core::keys::repairable::Delta<C>, accept);
                one!(frost_core::keys::repairable::Sigma<C>, accept);
                one!(frost_rerandomized::Randomizer<C>, accept);
                one!(frost_core::Identifier<C>, accept && !zero);
                one!(frost_core::SigningKey<C>, accept && !zero);
            }
            "element" => {
                one!(frost_core::VerifyingKey<C>, accept);
                one!(frost_core::keys::VerifyingShare<C>, accept);
                one!(frost_core::round1::NonceCommitment<C>, accept);
                one!(frost_core::keys::CoefficientCommitment<C>, accept);
            }
            "signature" => {
                one!(frost_core::Signature<C>, accept);
            }
            _ => {}
        }
    }
}

fn primitive_encodings<C: Suite>(co: &Corpus<C>) -> Vec<Vec<u8>> {
    let mut v: Vec<Vec<u8>> = vec![];
    fn add<C: Suite, T: Wire<C>>(vals: &[T], out: &mut Vec<Vec<u8>>) {
        if T::PRIMITIVE && T::NAME != "Signature" {
            for x in vals {
                if let Ok(b) = x.enc() {
                    out.push(b);
                }
            }
        }
    }
    each_wire_type!(co, add, &mut v);
    v.sort();
    v.dedup();
    v
}

fn find_all(hay: &[u8], needle: &[u8]) -> Vec<usize> {
    if needle.is_empty() || hay.len() < needle.len() {
        return vec![];
    }
    (0..=hay.len() - needle.len()).filter(|i| &hay[*i..*i + needle.len()] == needle).collect()
}

fn containers<C: Suite, T: Wire<C>>(vals: &[T], ctx: &mut Ctx, prims: &[Vec<u8>]) {
    if T::PRIMITIVE || T::NAME == "VerifiableSecretSharingCommitment" {
        return;
    }
    let hdr = header_bytes::<C>();
    let take = if ctx.quick() { 1 } else { 3 };
    for v in vals.iter().take(take) {
        let Ok(b) = v.enc() else { continue };
        let d = |what: &str, extra: Value| json!({"what": what, "type": T::NAME, "valid": hex::encode(&b), "extra": extra});
        let has_header = b.len() >= 5 && b[..5] == hdr[..];
        if has_header {
            for x in 1..=255u8 {
                let mut m = b.clone();
                m[0] = x;
                if T::dec(&m).is_ok() {
                    ctx.viol("container-accepts", &format!("format-version/{}", T::NAME), d("format version != 0 accepted", json!({"version": x})));
                }
                ctx.count("container_decodes");
            }
            // a version field wider than its one byte: varint spellings of 0 and of multiples of 256 in front of the rest
            for pre in [&[0x80u8, 0x00][..], &[0x80, 0x02], &[0x80, 0x80, 0x04], &[0x80, 0x80, 0x00], &[0x80, 0x80, 0x80, 0x80, 0x10], &[0x00, 0x00]] {
                let m = [pre, &b[1..]].concat();
                if T::dec(&m).is_ok() {
                    ctx.viol("container-accepts", &format!("format-version-wide/{}", T::NAME), d("a multi-byte spelling of the format version is accepted", json!({"prefix": hex::encode(pre)})));
                }
                ctx.count("container_decodes");
            }
            for pos in 1..5 {
                for x in 0..=255u8 {
                    if x == b[pos] {
                        continue;
                    }
                    let mut m = b.clone();
                    m[pos] = x;
                    if T::dec(&m).is_ok() {
                        ctx.viol("container-accepts", &format!("ciphersuite-id/{}", T::NAME), d("another ciphersuite identifier accepted", json!({"pos": pos, "byte": x})));
                    }
                    ctx.count("container_decodes");
                }
            }
            // the CRC-32 identifiers of the other five ciphersuites
            for other in ["FROST-ED25519-SHA512-v1", "FROST-RISTRETTO255-SHA512-v1", "FROST-ED448-SHAKE256-v1", "FROST-P256-SHA256-v1", "FROST-secp256k1-SHA256-v1", "FROST-secp256k1-SHA256-TR-v1"] {
                if other == C::ID {
                    continue;
                }
                let mut m = b.clone();
                m[1..5].copy_from_slice(&crc32(other.as_bytes()).to_be_bytes());
                if T::dec(&m).is_ok() {
                    ctx.viol("container-accepts", &format!("ciphersuite-id/{}", T::NAME), d("identifier of another ciphersuite accepted", json!({"other": other})));
                }
            }
            ctx.class(format!("container/header/{}", T::NAME));
        } else {
            ctx.count(&format!("no_header/{}", T::NAME));
            // these types carry the format version and the ciphersuite identifier (CRC-32 of the context string, recomputed here)
            if matches!(T::NAME, "SigningNonces" | "SigningCommitments" | "SigningPackage" | "SecretShare" | "KeyPackage" | "PublicKeyPackage" | "dkg::round1::Package" | "dkg::round2::Package") {
                ctx.viol("container-header-wrong", T::NAME, d("encoding does not start with format version 0 and this ciphersuite's identifier", json!({"expected_header": hex::encode(&hdr), "got": hex::encode(&b[..b.len().min(5)])})));
            }
        }
        // truncations
        let is_pkp = T::NAME == "PublicKeyPackage";
        for l in 0..b.len() {
            let m = &b[..l];
            ctx.count("container_decodes");
            if let Ok(v2) = T::dec(m) {
                // S3: a public key package whose trailing threshold is absent or cut is the pre-3.0 form
                let legacy_ok = is_pkp && l + 3 >= b.len() && {
                    let js = v2.to_json().unwrap_or_default();
                    !js.contains("min_signers")
                };
                if legacy_ok {
                    ctx.count("legacy_public_key_package_prefix_accepted");
                } else {
                    ctx.viol("container-accepts", &format!("truncated/{}", T::NAME), d("truncated encoding accepted", json!({"length": l, "full": b.len()})));
                }
            }
        }
        ctx.class(format!("container/truncation/{}", T::NAME));
        // trailing bytes: recorded, not judged (S2)
        if T::dec(&[&b[..], &[0u8][..]].concat()).is_ok() {
            ctx.count("trailing_byte_accepted_observation");
        }
        // embedded primitives replaced by invalid ones
        let order = order_bytes::<C>();
        let mut replaced = 0;
        for pr in prims {
            for at in find_all(&b, pr) {
                // all-0xff is invalid as a scalar and as an element in every suite; the group order is used
                // as well where the window is unambiguously a scalar
                let mut invalid: Vec<Vec<u8>> = vec![vec![0xff; pr.len()]];
                let is_scalar = pr.len() == C::SCALAR_LEN && sc_decode::<C>(pr).is_some();
                let is_element = pr.len() == C::ELEM_LEN && el_decode::<C>(pr).is_some();
                if is_scalar && !is_element {
                    invalid.push(order.clone());
                }
                for inv in invalid {
                    let mut m = b.clone();
                    m[at..at + pr.len()].copy_from_slice(&inv);
                    ctx.count("container_decodes");
                    if T::dec(&m).is_ok() {
                        ctx.viol("container-accepts", &format!("embedded-invalid-primitive/{}", T::NAME), d("container with an invalid embedded primitive accepted", json!({"offset": at, "replacement": hex::encode(&inv)})));
                    }
                    replaced += 1;
                }
                if replaced > 60 {
                    break;
                }
            }
        }
        if replaced > 0 {
            ctx.class(format!("container/embedded/{}", T::NAME));
        }
        // JSON form
        if T::HAS_JSON {
            if let Ok(s) = v.to_json() {
                if let Ok(val) = serde_json::from_str::<Value>(&s) {
                    let mut variants: Vec<(String, Value)> = vec![];
                    if val.get("header").is_some() {
                        for ver in [json!(1), json!(2), json!(255), json!(256), json!(512), json!(65536), json!(4294967296u64), json!(-256), json!(0.5), json!("0"), json!(null), json!([0]), json!(false)] {
                            let mut x = val.clone();
                            x["header"]["version"] = ver;
                            variants.push(("format-version".into(), x));
                        }
                        for cs in ["FROST-ED25519-SHA512-v1", "FROST-secp256k1-SHA256-v1", "FROST-secp256k1-SHA256-TR-v1", "FROST-RISTRETTO255-SHA512-v1", "", "frost"] {
                            if cs == C::ID {
                                continue;
                            }
                            let mut x = val.clone();
                            x["header"]["ciphersuite"] = json!(cs);
                            variants.push(("ciphersuite-id".into(), x));
                        }
                        let mut x = val.clone();
                        x.as_object_mut().unwrap().remove("header");
                        variants.push(("header-missing".into(), x));
                    }
                    let mut x = val.clone();
                    if let Some(o) = x.as_object_mut() {
                        o.insert("extra".into(), json!(1));
                        variants.push(("unknown-field".into(), x));
                    }
                    // every hex leaf replaced by invalid encodings of the same length
                    let mut paths = vec![];
                    leaf_paths(&val, vec![], &mut paths);
                    for path in paths.iter().take(40) {
                        if let Some(Value::String(h)) = get(&val, path) {
                            if path.last().map(|k| k == "message").unwrap_or(false) {
                                continue;
                            }
                            if h.len() == 2 * C::SCALAR_LEN || h.len() == 2 * C::ELEM_LEN {
                                let mut invs = vec!["ff".repeat(h.len() / 2), h[..h.len() - 2].to_string(), format!("{h}00")];
                                if C::ELEM_LEN != C::SCALAR_LEN && h.len() == 2 * C::SCALAR_LEN {
                                    invs.push(hex::encode(&order));
                                }
                                for inv in invs {
                                    let mut x = val.clone();
                                    set(&mut x, path, Value::String(inv));
                                    variants.push(("embedded-invalid-primitive".into(), x));
                                }
                            }
                        }
                    }
                    for (what, x) in variants {
                        ctx.count("container_json_decodes");
                        if T::from_json(&x.to_string()).is_ok() {
                            ctx.viol("container-accepts", &format!("json-{what}/{}", T::NAME), d("JSON container accepted", json!({"json": x})));
                        }
                    }
                    ctx.class(format!("container/json/{}", T::NAME));
                }
            }
        }
    }
    let _ = prims;
}

fn leaf_paths(v: &Value, cur: Vec<String>, out: &mut Vec<Vec<String>>) {
    match v {
        Value::Object(m) => {
            for (k, x) in m {
                let mut c = cur.clone();
                c.push(k.clone());
                leaf_paths(x, c, out);
            }
        }
        Value::Array(a) => {
            for (i, x) in a.iter().enumerate() {
                let mut c = cur.clone();
                c.push(i.to_string());
                leaf_paths(x, c, out);
            }
        }
        Value::String(_) => out.push(cur),
        _ => {}
    }
}
fn get<'a>(v: &'a Value, path: &[String]) -> Option<&'a Value> {
    let mut cur = v;
    for k in path {
        cur = match cur {
            Value::Object(m) => m.get(k)?,
            Value::Array(a) => a.get(k.parse::<usize>().ok()?)?,
            _ => return None,
        };
    }
    Some(cur)
}
fn set(v: &mut Value, path: &[String], new: Value) {
    let mut cur = v;
    for k in path {
        cur = match cur {
            Value::Object(m) => match m.get_mut(k) {
                Some(x) => x,
                None => return,
            },
            Value::Array(a) => match k.parse::<usize>().ok().and_then(|i| a.get_mut(i)) {
                Some(x) => x,
                None => return,
            },
            _ => return,
        };
    }
    *cur = new;
}

/// containers of a sibling ciphersuite (same field sizes) must be refused because of their identifier
fn cross<C: Suite, D: Suite>(ctx: &mut Ctx) {
    let mut co = Corpus::<D>::default();
    let mut rng = ctx.rng("harvest-sibling");
    let mut p = ctx.pick("harvest-sibling");
    if harvest::<D>(&mut co, 3, 2, "default", &mut rng, &mut p).is_err() {
        return;
    }
    fn try_one<C: Suite, D: Suite, TD: Wire<D>, TC: Wire<C>>(ctx: &mut Ctx, vals: &[TD]) {
        for v in vals.iter().take(2) {
            if let Ok(b) = v.enc() {
                let hdr = header_bytes::<D>();
                if b.len() >= 5 && b[..5] == hdr[..] {
                    ctx.count("cross_suite_decodes");
                    if TC::dec(&b).is_ok() {
                        ctx.viol("container-accepts", &format!("cross-suite/{}", TC::NAME), json!({"type": TC::NAME, "from": D::NAME, "bytes": hex::encode(&b)}));
                    }
                }
            }
            if TD::HAS_JSON {
                if let Ok(s) = v.to_json() {
                    if s.contains("ciphersuite") {
                        ctx.count("cross_suite_json_decodes");
                        if TC::from_json(&s).is_ok() {
                            ctx.viol("container-accepts", &format!("cross-suite-json/{}", TC::NAME), json!({"type": TC::NAME, "from": D::NAME, "json": s}));
                        }
                    }
                }
            }
        }
        ctx.class(format!("cross-suite/{}<-{}", TC::NAME, D::NAME));
    }
    use frost_core::keys::dkg::{round1 as d1, round2 as d2};
    use frost_core::keys::{KeyPackage, PublicKeyPackage, SecretShare};
    use frost_core::round1::{SigningCommitments, SigningNonces};
    use frost_core::SigningPackage;
    try_one::<C, D, SigningNonces<D>, SigningNonces<C>>(ctx, &co.signing_nonces);
    try_one::<C, D, SigningCommitments<D>, SigningCommitments<C>>(ctx, &co.signing_commitments);
    try_one::<C, D, SigningPackage<D>, SigningPackage<C>>(ctx, &co.signing_package);
    try_one::<C, D, SecretShare<D>, SecretShare<C>>(ctx, &co.secret_share);
    try_one::<C, D, KeyPackage<D>, KeyPackage<C>>(ctx, &co.key_package);
    try_one::<C, D, PublicKeyPackage<D>, PublicKeyPackage<C>>(ctx, &co.public_key_package);
    try_one::<C, D, d1::Package<D>, d1::Package<C>>(ctx, &co.dkg_r1_package);
    try_one::<C, D, d2::Package<D>, d2::Package<C>>(ctx, &co.dkg_r2_package);
}
