//! C11 — share repair returns exactly the lost share and needs a threshold of helpers.

use std::collections::BTreeMap;

use frost_core::Identifier;
use frost_core::keys::repairable::{self, Delta, Sigma};
use frost_core::keys::{PublicKeyPackage, refresh};
use serde_json::json;

use crate::alg::*;
use crate::gen_::*;
use crate::props::c01::judge_session;
use crate::proto::*;
use crate::{Ctx, Suite};

pub fn run<C: Suite>(ctx: &mut Ctx) {
    let slow = C::NAME == "ed448";
    let max_n: u16 = match (ctx.quick(), slow) {
        (true, true) => 5,
        (true, false) => 6,
        (false, true) => 7,
        (false, false) => 9,
    };
    for (n, t) in shapes(max_n) {
        if n < 3 && t > 2 {
            continue;
        }
        for (source, kind) in [("dealer", "default"), ("dealer", "big-scalar"), ("dkg", "sparse-u16"), ("refreshed", "derived")] {
            if source == "dkg" && n > ctx.scale(4, 6) {
                continue;
            }
            if ctx.quick() && kind != "default" && (n + t) % 2 == 1 {
                continue;
            }
            if !ctx.item(&format!("n={n} t={t} keys={source} ids={kind}")) {
                continue;
            }
            ctx.guard(|ctx| item::<C>(ctx, n, t, source, kind));
        }
    }
}

fn item<C: Suite>(ctx: &mut Ctx, n: u16, t: u16, source: &str, kind: &str) {
    let mut rng = ctx.rng("keys");
    let mut p = ctx.pick("choices");
    let mut ids = identifiers::<C>(kind, n as usize + 1, &mut p);
    let fresh_id = ids.pop().unwrap();
    let idl = if kind == "default" { None } else { Some(&ids[..]) };
    let grp = match source {
        "dkg" => dkg_group::<C>(n, t, &ids, &mut rng).map(|x| x.0),
        _ => dealer_group::<C>(n, t, idl, None, &mut rng),
    };
    let mut grp = match grp {
        Ok(g) => g,
        Err(e) => return ctx.viol("honest-keygen-failed", "", json!({"err": format!("{e:?}")})),
    };
    let dealer_commitment: Option<Vec<El<C>>> = grp.shares.values().next().map(|s| s.commitment().coefficients().iter().map(|c| c.value()).collect());
    let mut refreshed = false;
    if source == "refreshed" {
        let rem = grp.ids.clone();
        if let Ok((shares, newp)) = C::api_compute_refreshing_shares(grp.pkp.clone(), &rem, &mut rng) {
            let mut kps = BTreeMap::new();
            for (id, sh) in rem.iter().zip(shares) {
                match C::api_refresh_share(sh, &grp.kps[id]) {
                    Ok(kp) => {
                        kps.insert(*id, kp);
                    }
                    Err(_) => return,
                }
            }
            grp.kps = kps;
            grp.pkp = newp;
            refreshed = true;
        }
    }
    let nn = n as usize;
    let tt = t as usize;
    let xs: Vec<Sc<C>> = grp.ids.iter().map(id_sc::<C>).collect();
    let ys: Vec<Sc<C>> = grp.ids.iter().map(|i| grp.kps[i].signing_share().to_scalar()).collect();
    let cap = ctx.scale(3, 100);
    let msg = p.bytes(30);
    // repaired identifiers: every existing one (quick: three of them) and new ones
    let mut targets: Vec<(String, Identifier<C>, Option<usize>)> = vec![];
    let existing: Vec<usize> = if ctx.quick() { let mut v = vec![0, nn - 1, nn / 2]; v.sort(); v.dedup(); v } else { (0..nn).collect() };
    for ix in existing {
        targets.push(("existing".into(), grp.ids[ix], Some(ix)));
    }
    targets.push(("new".into(), fresh_id, None));
    if let Ok(big) = Identifier::<C>::new(neg::<C>(sc_u64::<C>(3))) {
        if !grp.ids.contains(&big) {
            targets.push(("new-near-order".into(), big, None));
        }
    }
    if let Ok(small) = Identifier::<C>::try_from(n + 7) {
        if !grp.ids.contains(&small) {
            targets.push(("new-small".into(), small, None));
        }
    }
    for (tkind, pid, pix) in targets {
        let pool: Vec<usize> = (0..nn).filter(|i| Some(*i) != pix).collect();
        for hsize in tt..=pool.len() {
            for hs in subsets(pool.len(), hsize, cap, &mut p) {
                let mut helpers: Vec<Identifier<C>> = hs.iter().map(|i| grp.ids[pool[*i]]).collect();
                p.shuffle(&mut helpers); // order of the helper list must not matter
                let d = |what: &str, extra: serde_json::Value| json!({"what": what, "n": n, "t": t, "keys": source, "target": tkind, "participant": id_hex::<C>(&pid),
                    "helpers": helpers.iter().map(id_hex::<C>).collect::<Vec<_>>(), "extra": extra});
                // part 1 at every helper
                let mut inbox: IdMap<C, Vec<Delta<C>>> = BTreeMap::new();
                let hx: Vec<Sc<C>> = helpers.iter().map(id_sc::<C>).collect();
                let mut failed = false;
                for (hi, h) in helpers.iter().enumerate() {
                    match C::api_repair_part1(&helpers, &grp.kps[h], &mut rng, pid) {
                        Ok(deltas) => {
                            let keys: Vec<_> = deltas.keys().copied().collect();
                            let mut want = helpers.clone();
                            want.sort();
                            if keys != want {
                                ctx.viol("repair-output-inconsistent", "delta-recipients", d("deltas are not addressed to exactly the helpers", json!({})));
                            }
                            // sum of this helper's outgoing values == lambda_h(x = participant) * s_h
                            let mut sum = zero::<C>();
                            for dl in deltas.values() {
                                sum = sum + dl.to_scalar();
                            }
                            let lam = lagrange_at::<C>(&hx, hi, id_sc::<C>(&pid)).unwrap();
                            if sum != lam * grp.kps[h].signing_share().to_scalar() {
                                ctx.viol("helper-deltas-wrong-sum", "", d("sum of a helper's deltas != Lagrange-weighted share", json!({"helper": id_hex::<C>(h)})));
                            }
                            ctx.count("helper_part1_calls");
                            for (to, dl) in deltas {
                                inbox.entry(to).or_default().push(dl);
                            }
                        }
                        Err(e) => {
                            ctx.viol("valid-repair-refused", "part1", d("repair_share_part1 failed", json!({"err": format!("{e:?}")})));
                            failed = true;
                        }
                    }
                }
                if failed {
                    continue;
                }
                let sigmas: Vec<Sigma<C>> = helpers.iter().map(|h| C::api_repair_part2(&inbox[h])).collect();
                let kp = match C::api_repair_part3(&sigmas, pid, &grp.pkp) {
                    Ok(k) => k,
                    Err(e) => {
                        ctx.viol("valid-repair-refused", "part3", d("repair_share_part3 failed", json!({"err": format!("{e:?}")})));
                        continue;
                    }
                };
                // with a public key package that does not record the threshold (pre-3.0 form) the participant cannot learn
                // it: part 3 must refuse, or at least never hand out a key package with another threshold
                let legacy = PublicKeyPackage::new(grp.pkp.verifying_shares().clone(), *grp.pkp.verifying_key(), None);
                match C::api_repair_part3(&sigmas, pid, &legacy) {
                    Err(e) => ctx.count(&format!("legacy-package/{}", err_name(&e))),
                    Ok(k2) => {
                        if *k2.min_signers() != t {
                            ctx.viol("repair-output-inconsistent", "threshold-from-legacy-package", d("repair with a public key package lacking the threshold returned a key package with another threshold", json!({"min_signers": k2.min_signers()})));
                        }
                    }
                }
                // a public key package that is out of date for the repaired participant (same group key and threshold, but its
                // entry holds another value - what a participant has that slept through a refresh): the repaired key package
                // is still the one that matches the recovered share
                if let Some(ix) = pix {
                    let other = grp.ids[(ix + 1) % grp.ids.len()];
                    let mut vs = grp.pkp.verifying_shares().clone();
                    vs.insert(grp.ids[ix], grp.pkp.verifying_shares()[&other]);
                    let stale = PublicKeyPackage::new(vs, *grp.pkp.verifying_key(), grp.pkp.min_signers());
                    if let Ok(k3) = C::api_repair_part3(&sigmas, pid, &stale) {
                        if k3.signing_share() != kp.signing_share() || k3.verifying_share().to_element() != g::<C>() * k3.signing_share().to_scalar() {
                            ctx.viol("repair-output-inconsistent", "stale-public-package", d("with an out-of-date entry in the public key package the repaired key package's verifying share is not G * its signing share", json!({})));
                        }
                        ctx.count("stale_package_repairs");
                    }
                }
                let s = kp.signing_share().to_scalar();
                // the group polynomial at the participant's identifier
                let want = match pix {
                    Some(ix) => ys[ix],
                    None => interpolate_at::<C>(&xs[..tt], &ys[..tt], id_sc::<C>(&pid)).unwrap(),
                };
                if s != want {
                    ctx.viol("repaired-share-wrong", &tkind, d("repaired signing share != group polynomial at the identifier", json!({})));
                }
                if let (None, Some(comm), false) = (pix, &dealer_commitment, refreshed) {
                    if g::<C>() * s != eval_commit::<C>(comm, id_sc::<C>(&pid)) {
                        ctx.viol("repaired-share-wrong", "off-dealer-commitment", d("G*share != sum id^k C_k for a new identifier", json!({})));
                    }
                }
                if kp.verifying_share().to_element() != g::<C>() * s || kp.verifying_key() != grp.pkp.verifying_key() || *kp.min_signers() != t || kp.identifier() != &pid {
                    ctx.viol("repair-output-inconsistent", "key-package", d("verifying share / group key / threshold / identifier of the repaired key package", json!({})));
                }
                if let Some(ix) = pix {
                    if kp.verifying_share() != &grp.pkp.verifying_shares()[&grp.ids[ix]] {
                        ctx.viol("repair-output-inconsistent", "verifying-share-vs-public-package", d("repaired verifying share != public key package entry", json!({})));
                    }
                }
                // the repaired participant signs with t-1 others
                let mut g2 = grp.clone();
                g2.kps.insert(pid, kp.clone());
                if pix.is_none() {
                    let mut vs = grp.pkp.verifying_shares().clone();
                    vs.insert(pid, *kp.verifying_share());
                    g2.pkp = PublicKeyPackage::new(vs, *grp.pkp.verifying_key(), grp.pkp.min_signers());
                }
                let mut signers = vec![pid];
                let mut others: Vec<Identifier<C>> = grp.ids.iter().filter(|i| **i != pid).copied().collect();
                p.shuffle(&mut others);
                signers.extend(others.into_iter().take(tt - 1));
                match sign_session(&g2, &signers, &msg, &mut rng) {
                    Ok(sess) => {
                        judge_session(ctx, "after-repair", &g2, &sess, &msg, false);
                    }
                    Err((id, e)) => ctx.viol("repaired-cannot-sign", "", d("sign failed", json!({"signer": id_hex::<C>(&id), "err": format!("{e:?}")}))),
                }
                ctx.count("repairs");
                ctx.class(format!("n={n}/t={t}/{source}/{tkind}/H={hsize}"));
            }
        }
        // refusals
        let pool_ids: Vec<Identifier<C>> = pool.iter().map(|i| grp.ids[*i]).collect();
        let caller = pool_ids[0];
        let d = |what: &str| json!({"what": what, "n": n, "t": t, "participant": id_hex::<C>(&pid)});
        if tt >= 2 {
            let few: Vec<_> = pool_ids.iter().take(tt - 1).copied().collect();
            match C::api_repair_part1(&few, &grp.kps[&caller], &mut rng, pid) {
                Err(e) => ctx.count(&format!("refused/too-few/{}", err_name(&e))),
                Ok(_) => ctx.viol("bad-helper-list-accepted", "too-few", d("fewer than t helpers accepted")),
            }
            ctx.class(format!("refuse/too-few/t={t}"));
        }
        if pool_ids.len() >= tt {
            // duplicates: t entries with a repeated helper; and t+1 entries of which one repeats
            let mut dup: Vec<_> = pool_ids.iter().take(tt).copied().collect();
            let l = dup.len();
            if l >= 2 {
                dup[l - 1] = dup[0];
                match C::api_repair_part1(&dup, &grp.kps[&caller], &mut rng, pid) {
                    Err(e) => ctx.count(&format!("refused/duplicate/{}", err_name(&e))),
                    Ok(_) => ctx.viol("bad-helper-list-accepted", "duplicate", d("helper list with a duplicate accepted")),
                }
            }
            let mut dup2: Vec<_> = pool_ids.iter().take(tt).copied().collect();
            dup2.push(dup2[tt - 1]);
            match C::api_repair_part1(&dup2, &grp.kps[&caller], &mut rng, pid) {
                Err(e) => ctx.count(&format!("refused/duplicate-extra/{}", err_name(&e))),
                Ok(_) => ctx.viol("bad-helper-list-accepted", "duplicate-extra", d("helper list of t distinct + one repeated accepted")),
            }
            ctx.class(format!("refuse/duplicate/t={t}"));
        }
        if pool_ids.len() > tt {
            let without: Vec<_> = pool_ids.iter().skip(1).take(tt).copied().collect();
            match C::api_repair_part1(&without, &grp.kps[&caller], &mut rng, pid) {
                Err(e) => ctx.count(&format!("refused/caller-omitted/{}", err_name(&e))),
                Ok(_) => ctx.viol("bad-helper-list-accepted", "caller-omitted", d("helper list omitting the calling helper accepted")),
            }
            ctx.class(format!("refuse/caller-omitted/t={t}"));
        }
    }
    if ctx.samples.is_empty() {
        ctx.sample(json!({"n": n, "t": t, "keys": source, "ids": kind,
            "checked": "every helper set (sampled above cap) x repaired identifier (existing/new): share == polynomial at id, per-helper delta sums, key package fields, signing, refusals"}));
    }
}
