//! C07 — honest distributed key generation ends with one group key and matching shares.

use std::collections::BTreeMap;

use frost_core::keys::PublicKeyPackage;
use frost_core::Identifier;
use serde_json::json;

use crate::alg::*;
use crate::gen_::*;
use crate::props::c01::judge_session;
use crate::proto::*;
use crate::{Ctx, Suite};

pub fn run<C: Suite>(ctx: &mut Ctx) {
    let slow = C::NAME == "ed448";
    let max_n: u16 = match (ctx.quick(), slow) {
        (true, true) => 4,
        (true, false) => 6,
        (false, true) => 7,
        (false, false) => 11,
    };
    let reps = ctx.scale(2, 5);
    for (n, t) in shapes(max_n) {
        for kind in ID_KINDS {
            for rep in 0..reps {
                if ctx.quick() && slow && kind == "mixed" {
                    continue;
                }
                if !ctx.item(&format!("n={n} t={t} ids={kind} rep={rep}")) {
                    continue;
                }
                ctx.guard(|ctx| item::<C>(ctx, n, t, kind));
            }
        }
    }
    for (n, t) in [(2u16, 2u16), (3, 2), (3, 3), (4, 3), (5, 4)] {
        for which in ["zero-share", "same-polynomial"] {
            for kind in ["default", "sparse-u16", "derived"] {
                if ctx.quick() && kind != "default" && (n + t) % 2 == 0 {
                    continue;
                }
                if !ctx.item(&format!("special polynomials {which} n={n} t={t} ids={kind}")) {
                    continue;
                }
                ctx.guard(|ctx| special_polynomials::<C>(ctx, n, t, kind, which));
            }
        }
    }
    if !ctx.quick() && !slow && ctx.item("large n=24 t=13") {
        ctx.guard(|ctx| item::<C>(ctx, 24, 13, "sparse-u16"));
    }
}

/// All C07 consistency verdicts on a finished DKG; also used by C09 on completed histories.
pub fn judge_dkg<C: Suite>(ctx: &mut Ctx, grp: &Grp<C>, run: &DkgRun<C>, pkps: &IdMap<C, PublicKeyPackage<C>>, tag: &str) {
    let n = grp.n;
    let t = grp.t;
    let d = |what: &str, extra: serde_json::Value| json!({"what": what, "tag": tag, "n": n, "t": t, "ids": grp.ids.iter().map(id_hex::<C>).collect::<Vec<_>>(), "extra": extra});
    // one public key package
    let first = &pkps[&grp.ids[0]];
    for id in &grp.ids {
        if &pkps[id] != first {
            ctx.viol("public-key-packages-differ", "", d("participants hold different public key packages", json!({"id": id_hex::<C>(id)})));
        }
    }
    if first.min_signers() != Some(t) || first.verifying_shares().len() != n as usize {
        ctx.viol("dkg-output-inconsistent", "pkp-shape", d("threshold / participant count in public key package", json!({"min": format!("{:?}", first.min_signers()), "len": first.verifying_shares().len()})));
    }
    // expected group key and shares from the participants' own polynomials
    let mut sum_key = ident::<C>();
    for id in &grp.ids {
        let c0 = run.r1_pkgs[id].commitment().coefficients()[0].value();
        if c0 != g::<C>() * run.coeffs[id][0] {
            ctx.viol("dkg-output-inconsistent", "commitment-constant", d("published C_0 != G*a_0", json!({"id": id_hex::<C>(id)})));
        }
        sum_key = sum_key + c0;
    }
    let (want_key, _) = C::indep_post_dkg(sum_key, zero::<C>());
    if first.verifying_key().to_element() != want_key {
        ctx.viol("group-key-wrong", "", d("group key != sum of constant-term commitments (with the Taproot key-path tweak where applicable)",
            json!({"got": el_hex::<C>(&first.verifying_key().to_element()), "want": el_hex::<C>(&want_key)})));
    }
    if !C::TAPROOT {
        let comms: std::collections::BTreeMap<_, _> = grp.ids.iter().map(|i| (*i, run.r1_pkgs[i].commitment())).collect();
        match PublicKeyPackage::<C>::from_dkg_commitments(&comms) {
            Ok(re) => {
                if &re != first {
                    ctx.viol("dkg-output-inconsistent", "recreated-public-key-package", d("PublicKeyPackage::from_dkg_commitments(all round-one commitments) != the package returned by part3", json!({})));
                }
            }
            Err(e) => ctx.viol("dkg-output-inconsistent", "recreated-public-key-package", d("from_dkg_commitments failed", json!({"err": format!("{e:?}")}))),
        }
        ctx.count("recreations");
    }
    for id in &grp.ids {
        let kp = &grp.kps[id];
        let x = id_sc::<C>(id);
        let mut s = zero::<C>();
        for j in &grp.ids {
            s = s + eval_poly::<C>(&run.coeffs[j], x);
        }
        let (_, want_s) = C::indep_post_dkg(sum_key, s);
        let got_s = kp.signing_share().to_scalar();
        if got_s != want_s {
            ctx.viol("share-off-summed-polynomial", "", d("signing share != sum_j f_j(i)", json!({"id": id_hex::<C>(id)})));
        }
        let gs = g::<C>() * got_s;
        if kp.verifying_share().to_element() != gs {
            ctx.viol("dkg-output-inconsistent", "verifying-share", d("key package verifying share != G*signing share", json!({"id": id_hex::<C>(id)})));
        }
        match first.verifying_shares().get(id) {
            Some(v) if v.to_element() == gs => {}
            _ => ctx.viol("dkg-output-inconsistent", "pkp-entry", d("public key package entry != G*signing share", json!({"id": id_hex::<C>(id)}))),
        }
        if kp.verifying_key() != first.verifying_key() || *kp.min_signers() != t || kp.identifier() != id {
            ctx.viol("dkg-output-inconsistent", "key-package", d("key package group key / threshold / identifier", json!({"id": id_hex::<C>(id)})));
        }
        ctx.count("participants_checked");
    }
}

/// Honest runs with *particular* polynomials (the property quantifies over all of them): a participant whose polynomial
/// has a root at a peer's identifier (that peer's share is the zero scalar), and two participants who happen to use the
/// same polynomial (each with its own valid proof of knowledge).
fn special_polynomials<C: Suite>(ctx: &mut Ctx, n: u16, t: u16, kind: &str, which: &str) {
    use frost_core::keys::dkg::round1;
    use frost_core::keys::{CoefficientCommitment, VerifiableSecretSharingCommitment};
    let mut rng = ctx.rng("dkg-special");
    let mut p = ctx.pick("choices");
    let ids = identifiers::<C>(kind, n as usize, &mut p);
    let mut r1_secret = BTreeMap::new();
    let mut r1_pkgs = BTreeMap::new();
    let mut coeffs: IdMap<C, Vec<Sc<C>>> = BTreeMap::new();
    for id in &ids {
        let Ok((s, pk)) = C::api_dkg_part1(*id, n, t, &mut rng) else { return ctx.viol("honest-dkg-failed", "part1", json!({"n": n, "t": t})) };
        coeffs.insert(*id, s.coefficients());
        r1_secret.insert(*id, s);
        r1_pkgs.insert(*id, pk);
    }
    let (a, b) = (ids[0], ids[1]);
    let commit = |co: &[Sc<C>]| VerifiableSecretSharingCommitment::<C>::new(co.iter().map(|c| CoefficientCommitment::<C>::new(g::<C>() * *c)).collect());
    match which {
        "zero-share" => {
            // keep a_0 (and with it the proof of knowledge, which covers the constant term only); choose the leading
            // coefficient so that f_a(b) = 0
            let mut co = coeffs[&a].clone();
            let x = id_sc::<C>(&b);
            let mut pw = one::<C>();
            let mut acc = zero::<C>();
            for c in co.iter().take(t as usize - 1) {
                acc = acc + *c * pw;
                pw = pw * x;
            }
            let Some(inv_pw) = inv::<C>(pw) else { return };
            let lead = neg::<C>(acc) * inv_pw;
            if lead == zero::<C>() {
                return;
            }
            *co.last_mut().unwrap() = lead;
            let cm = commit(&co);
            let pok = *r1_pkgs[&a].proof_of_knowledge();
            r1_secret.insert(a, round1::SecretPackage::<C>::new(a, co.clone(), cm.clone(), t, n));
            r1_pkgs.insert(a, round1::Package::<C>::new(cm, pok));
            coeffs.insert(a, co);
        }
        _ => {
            // b uses a's polynomial, with a proof of knowledge of its own
            let co = coeffs[&a].clone();
            let cm = commit(&co);
            let Ok(pok) = frost_core::keys::dkg::compute_proof_of_knowledge::<C, _>(b, &co, &cm, &mut rng) else { return };
            r1_secret.insert(b, round1::SecretPackage::<C>::new(b, co.clone(), cm.clone(), t, n));
            r1_pkgs.insert(b, round1::Package::<C>::new(cm, pok));
            coeffs.insert(b, co);
        }
    }
    let d = |e: String| json!({"n": n, "t": t, "ids": kind, "polynomials": which, "err": e});
    let run = match dkg_round2_all::<C>(&ids, r1_secret, r1_pkgs, coeffs) {
        Ok(r) => r,
        Err(e) => return ctx.viol("honest-dkg-failed", &format!("special-polynomials/{which}/part2"), d(format!("{e:?}"))),
    };
    if which == "zero-share" && run.r2_pkgs[&a][&b].signing_share().to_scalar() != zero::<C>() {
        return ctx.viol("harness-error", "zero-share-not-zero", json!({}));
    }
    let (grp, run, pkps) = match dkg_finish::<C>(n, t, &ids, run) {
        Ok(x) => x,
        Err(e) => return ctx.viol("honest-dkg-failed", &format!("special-polynomials/{which}/part3"), d(format!("{e:?}"))),
    };
    judge_dkg(ctx, &grp, &run, &pkps, &format!("c07-{which}"));
    let signers: Vec<_> = grp.ids.iter().take(t as usize).copied().collect();
    match sign_session(&grp, &signers, b"special polynomials", &mut rng) {
        Ok(sess) => {
            judge_session(ctx, "after-dkg-special", &grp, &sess, b"special polynomials", false);
        }
        Err((id, e)) => ctx.viol("honest-sign-failed", "after-dkg-special", json!({"n": n, "t": t, "signer": id_hex::<C>(&id), "err": format!("{e:?}")})),
    }
    ctx.class(format!("special-polynomials/{which}/n={n}/t={t}/{kind}"));
    ctx.count("dkg_runs_special_polynomials");
}

fn item<C: Suite>(ctx: &mut Ctx, n: u16, t: u16, kind: &str) {
    let mut rng = ctx.rng("dkg");
    let mut p = ctx.pick("choices");
    let ids = identifiers::<C>(kind, n as usize, &mut p);
    let (grp, run, pkps) = match dkg_group::<C>(n, t, &ids, &mut rng) {
        Ok(x) => x,
        Err(e) => return ctx.viol("honest-dkg-failed", "", json!({"n": n, "t": t, "ids": kind, "err": format!("{e:?}")})),
    };
    judge_dkg(ctx, &grp, &run, &pkps, "c07");
    // for the Python BIP-341 / RFC re-check: constant-term commitments and the resulting key
    ctx.event(json!({"k": "dkg", "item": ctx.cur_item,
        "c0": grp.ids.iter().map(|i| el_hex::<C>(&run.r1_pkgs[i].commitment().coefficients()[0].value())).collect::<Vec<_>>(),
        "vk": el_hex::<C>(&grp.pkp.verifying_key().to_element()),
        "ids": grp.ids.iter().map(id_hex::<C>).collect::<Vec<_>>(),
        "coeffs": grp.ids.iter().map(|i| run.coeffs[i].iter().map(sc_hex::<C>).collect::<Vec<_>>()).collect::<Vec<_>>(),
        "shares": grp.ids.iter().map(|i| sc_hex::<C>(&grp.kps[i].signing_share().to_scalar())).collect::<Vec<_>>(),
        "vshares": grp.ids.iter().map(|i| el_hex::<C>(&grp.pkp.verifying_shares()[i].to_element())).collect::<Vec<_>>()}));
    // any t participants can sign
    let cap = if ctx.quick() { 6 } else { 35 };
    let msgs = messages(&mut p);
    let mut logged = 0;
    for (si, sub) in subsets(n as usize, t as usize, cap, &mut p).into_iter().enumerate() {
        let mut signers = pick_ids(&grp.ids, &sub);
        p.shuffle(&mut signers);
        let (mname, msg) = &msgs[(si + ctx.cur_item as usize) % 14];
        match sign_session(&grp, &signers, msg, &mut rng) {
            Ok(sess) => {
                if judge_session(ctx, "after-dkg", &grp, &sess, msg, logged < 1).is_some() {
                    logged += 1;
                }
                let _ = mname;
            }
            Err((id, e)) => ctx.viol("honest-sign-failed", "after-dkg", json!({"n": n, "t": t, "signer": id_hex::<C>(&id), "err": format!("{e:?}")})),
        }
    }
    // own identifier smallest / largest is covered by every participant being checked
    let par = if C::TAPROOT { format!("/P{}", parity_tag::<C>(&{ let mut s = ident::<C>(); for id in &grp.ids { s = s + run.r1_pkgs[id].commitment().coefficients()[0].value(); } s })) } else { String::new() };
    ctx.class(format!("n={n}/t={t}/{kind}{par}"));
    ctx.count("dkg_runs");
    if ctx.samples.is_empty() {
        ctx.sample(json!({"n": n, "t": t, "ids": kind, "participants": grp.ids.iter().map(id_hex::<C>).collect::<Vec<_>>(),
            "group_key": el_hex::<C>(&grp.pkp.verifying_key().to_element()),
            "checked": "equal public packages; share == sum_j f_j(i); verifying shares; group key == sum C_j0 (+tweak); t-subsets sign"}));
    }
}
