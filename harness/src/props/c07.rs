//! C07 — honest distributed key generation ends with one group key and matching shares.

use frost_core::keys::PublicKeyPackage;
use serde_json::json;

use crate::alg::*;
use crate::gen_::*;
use crate::props::c01::judge_session;
use crate::proto::*;
use crate::{Ctx, Suite};

pub fn run<C: Suite>(ctx: &mut Ctx) {
    let slow = C::NAME == "ed448";
    let max_n: u16 = match (ctx.quick(), slow) {
        (true, true) => 4,
        (true, false) => 6,
        (false, true) => 7,
        (false, false) => 11,
    };
    let reps = ctx.scale(2, 5);
    for (n, t) in shapes(max_n) {
        for kind in ID_KINDS {
            for rep in 0..reps {
                if ctx.quick() && slow && kind == "mixed" {
                    continue;
                }
                if !ctx.item(&format!("n={n} t={t} ids={kind} rep={rep}")) {
                    continue;
                }
                ctx.guard(|ctx| item::<C>(ctx, n, t, kind));
            }
        }
    }
    if !ctx.quick() && !slow && ctx.item("large n=24 t=13") {
        ctx.guard(|ctx| item::<C>(ctx, 24, 13, "sparse-u16"));
    }
}

/// All C07 consistency verdicts on a finished DKG; also used by C09 on completed histories.
pub fn judge_dkg<C: Suite>(ctx: &mut Ctx, grp: &Grp<C>, run: &DkgRun<C>, pkps: &IdMap<C, PublicKeyPackage<C>>, tag: &str) {
    let n = grp.n;
    let t = grp.t;
    let d = |what: &str, extra: serde_json::Value| json!({"what": what, "tag": tag, "n": n, "t": t, "ids": grp.ids.iter().map(id_hex::<C>).collect::<Vec<_>>(), "extra": extra});
    // one public key package
    let first = &pkps[&grp.ids[0]];
    for id in &grp.ids {
        if &pkps[id] != first {
            ctx.viol("public-key-packages-differ", "", d("participants hold different public key packages", json!({"id": id_hex::<C>(id)})));
        }
    }
    if first.min_signers() != Some(t) || first.verifying_shares().len() != n as usize {
        ctx.viol("dkg-output-inconsistent", "pkp-shape", d("threshold / participant count in public key package", json!({"min": format!("{:?}", first.min_signers()), "len": first.verifying_shares().len()})));
    }
    // expected group key and shares from the participants' own polynomials
    let mut sum_key = ident::<C>();
    for id in &grp.ids {
        let c0 = run.r1_pkgs[id].commitment().coefficients()[0].value();
        if c0 != g::<C>() * run.coeffs[id][0] {
            ctx.viol("dkg-output-inconsistent", "commitment-constant", d("published C_0 != G*a_0", json!({"id": id_hex::<C>(id)})));
        }
        sum_key = sum_key + c0;
    }
    let (want_key, _) = C::indep_post_dkg(sum_key, zero::<C>());
    if first.verifying_key().to_element() != want_key {
        ctx.viol("group-key-wrong", "", d("group key != sum of constant-term commitments (with the Taproot key-path tweak where applicable)",
            json!({"got": el_hex::<C>(&first.verifying_key().to_element()), "want": el_hex::<C>(&want_key)})));
    }
    if !C::TAPROOT {
        let comms: std::collections::BTreeMap<_, _> = grp.ids.iter().map(|i| (*i, run.r1_pkgs[i].commitment())).collect();
        match PublicKeyPackage::<C>::from_dkg_commitments(&comms) {
            Ok(re) => {
                if &re != first {
                    ctx.viol("dkg-output-inconsistent", "recreated-public-key-package", d("PublicKeyPackage::from_dkg_commitments(all round-one commitments) != the package returned by part3", json!({})));
                }
            }
            Err(e) => ctx.viol("dkg-output-inconsistent", "recreated-public-key-package", d("from_dkg_commitments failed", json!({"err": format!("{e:?}")}))),
        }
        ctx.count("recreations");
    }
    for id in &grp.ids {
        let kp = &grp.kps[id];
        let x = id_sc::<C>(id);
        let mut s = zero::<C>();
        for j in &grp.ids {
            s = s + eval_poly::<C>(&run.coeffs[j], x);
        }
        let (_, want_s) = C::indep_post_dkg(sum_key, s);
        let got_s = kp.signing_share().to_scalar();
        if got_s != want_s {
            ctx.viol("share-off-summed-polynomial", "", d("signing share != sum_j f_j(i)", json!({"id": id_hex::<C>(id)})));
        }
        let gs = g::<C>() * got_s;
        if kp.verifying_share().to_element() != gs {
            ctx.viol("dkg-output-inconsistent", "verifying-share", d("key package verifying share != G*signing share", json!({"id": id_hex::<C>(id)})));
        }
        match first.verifying_shares().get(id) {
            Some(v) if v.to_element() == gs => {}
            _ => ctx.viol("dkg-output-inconsistent", "pkp-entry", d("public key package entry != G*signing share", json!({"id": id_hex::<C>(id)}))),
        }
        if kp.verifying_key() != first.verifying_key() || *kp.min_signers() != t || kp.identifier() != id {
            ctx.viol("dkg-output-inconsistent", "key-package", d("key package group key / threshold / identifier", json!({"id": id_hex::<C>(id)})));
        }
        ctx.count("participants_checked");
    }
}

fn item<C: Suite>(ctx: &mut Ctx, n: u16, t: u16, kind: &str) {
    let mut rng = ctx.rng("dkg");
    let mut p = ctx.pick("choices");
    let ids = identifiers::<C>(kind, n as usize, &mut p);
    let (grp, run, pkps) = match dkg_group::<C>(n, t, &ids, &mut rng) {
        Ok(x) => x,
        Err(e) => return ctx.viol("honest-dkg-failed", "", json!({"n": n, "t": t, "ids": kind, "err": format!("{e:?}")})),
    };
    judge_dkg(ctx, &grp, &run, &pkps, "c07");
    // for the Python BIP-341 / RFC re-check: constant-term commitments and the resulting key
    ctx.event(json!({"k": "dkg", "item": ctx.cur_item,
        "c0": grp.ids.iter().map(|i| el_hex::<C>(&run.r1_pkgs[i].commitment().coefficients()[0].value())).collect::<Vec<_>>(),
        "vk": el_hex::<C>(&grp.pkp.verifying_key().to_element()),
        "ids": grp.ids.iter().map(id_hex::<C>).collect::<Vec<_>>(),
        "coeffs": grp.ids.iter().map(|i| run.coeffs[i].iter().map(sc_hex::<C>).collect::<Vec<_>>()).collect::<Vec<_>>(),
        "shares": grp.ids.iter().map(|i| sc_hex::<C>(&grp.kps[i].signing_share().to_scalar())).collect::<Vec<_>>(),
        "vshares": grp.ids.iter().map(|i| el_hex::<C>(&grp.pkp.verifying_shares()[i].to_element())).collect::<Vec<_>>()}));
    // any t participants can sign
    let cap = if ctx.quick() { 6 } else { 35 };
    let msgs = messages(&mut p);
    let mut logged = 0;
    for (si, sub) in subsets(n as usize, t as usize, cap, &mut p).into_iter().enumerate() {
        let mut signers = pick_ids(&grp.ids, &sub);
        p.shuffle(&mut signers);
        let (mname, msg) = &msgs[(si + ctx.cur_item as usize) % 14];
        match sign_session(&grp, &signers, msg, &mut rng) {
            Ok(sess) => {
                if judge_session(ctx, "after-dkg", &grp, &sess, msg, logged < 1).is_some() {
                    logged += 1;
                }
                let _ = mname;
            }
            Err((id, e)) => ctx.viol("honest-sign-failed", "after-dkg", json!({"n": n, "t": t, "signer": id_hex::<C>(&id), "err": format!("{e:?}")})),
        }
    }
    // own identifier smallest / largest is covered by every participant being checked
    let par = if C::TAPROOT { format!("/P{}", parity_tag::<C>(&{ let mut s = ident::<C>(); for id in &grp.ids { s = s + run.r1_pkgs[id].commitment().coefficients()[0].value(); } s })) } else { String::new() };
    ctx.class(format!("n={n}/t={t}/{kind}{par}"));
    ctx.count("dkg_runs");
    if ctx.samples.is_empty() {
        ctx.sample(json!({"n": n, "t": t, "ids": kind, "participants": grp.ids.iter().map(id_hex::<C>).collect::<Vec<_>>(),
            "group_key": el_hex::<C>(&grp.pkp.verifying_key().to_element()),
            "checked": "equal public packages; share == sum_j f_j(i); verifying shares; group key == sum C_j0 (+tweak); t-subsets sign"}));
    }
}
