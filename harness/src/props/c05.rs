//! C05 — a signature share is bound to one message, one commitment set and one signer set.
//!
//! Oracle (small executable model): a share produced in session X is valid under a package P'
//! iff P' == P_X exactly (same identifiers, same commitments, same message) and it is presented
//! under its own identifier and the session's group key. Aggregation under P' succeeds iff every
//! submitted share is valid under P'; with AllCheaters the culprits are exactly the invalid slots.

use std::collections::BTreeMap;

use frost_core::round1::{NonceCommitment, SigningCommitments};
use frost_core::round2::SignatureShare;
use frost_core::{CheaterDetection, Identifier, SigningPackage, VerifyingKey};
use serde_json::json;

use crate::alg::*;
use crate::gen_::*;
use crate::proto::*;
use crate::suite::indep_verify;
use crate::{Ctx, Suite};

pub fn run<C: Suite>(ctx: &mut Ctx) {
    let slow = C::NAME == "ed448";
    let ks: Vec<usize> = match (ctx.quick(), slow) {
        (true, true) => vec![2, 3],
        (true, false) => vec![2, 3, 4, 5],
        (false, true) => vec![2, 3, 4, 5],
        (false, false) => vec![2, 3, 4, 5, 6, 7],
    };
    for k in ks {
        for kind in ["default", "sparse-u16", "derived", "big-scalar"] {
            for extra in [0u16, 2] {
                if ctx.quick() && extra == 2 && kind != "default" {
                    continue;
                }
                let n = k as u16 + extra;
                let t = if extra == 0 { k as u16 } else { (k as u16).max(2) - if k > 2 { 1 } else { 0 } };
                if !ctx.item(&format!("|S|={k} n={n} t={t} ids={kind}")) {
                    continue;
                }
                ctx.guard(|ctx| item::<C>(ctx, n, t, k, kind));
            }
        }
    }
}

struct Sx<C: Suite> {
    s: Session<C>,
    msg: Vec<u8>,
}

fn vss<C: Suite>(grp: &Grp<C>, id: &Identifier<C>, sh: &SignatureShare<C>, pkg: &SigningPackage<C>, vk: &VerifyingKey<C>) -> bool {
    match grp.pkp.verifying_shares().get(id) {
        Some(vs) => frost_core::verify_signature_share(*id, vs, sh, pkg, vk).is_ok(),
        None => false,
    }
}

fn item<C: Suite>(ctx: &mut Ctx, n: u16, t: u16, k: usize, kind: &str) {
    let mut rng = ctx.rng("keys");
    let mut p = ctx.pick("choices");
    let ids = identifiers::<C>(kind, n as usize, &mut p);
    let idl = if kind == "default" { None } else { Some(&ids[..]) };
    let grp = match dealer_group::<C>(n, t, idl, None, &mut rng) {
        Ok(g) => g,
        Err(e) => return ctx.viol("honest-keygen-failed", "", json!({"err": format!("{e:?}")})),
    };
    let vk = *grp.pkp.verifying_key();
    let sub = p.subset(n as usize, k);
    let signers = pick_ids(&grp.ids, &sub);
    let outsiders: Vec<Identifier<C>> = grp.ids.iter().filter(|i| !signers.contains(i)).copied().collect();
    let msg_a = p.bytes(40);
    let msg_c = p.bytes(40);
    let mk = |msg: &[u8], rng: &mut crate::rng::TraceRng| sign_session(&grp, &signers, msg, rng).ok();
    let Some(sa) = mk(&msg_a, &mut rng) else { return ctx.viol("honest-sign-failed", "", json!({})) };
    // B1: concurrent session, same message, fresh nonces. B2: same nonces, other message. B3: both differ.
    let Some(sb1) = mk(&msg_a, &mut rng) else { return };
    let Some(sb3) = mk(&msg_c, &mut rng) else { return };
    let pkg_b2 = SigningPackage::new(sa.comms.clone(), &msg_c);
    let mut sh_b2 = BTreeMap::new();
    for id in &signers {
        match C::api_sign(&pkg_b2, &sa.nonces[id], &grp.kps[id]) {
            Ok(s) => {
                sh_b2.insert(*id, s);
            }
            Err(_) => return,
        }
    }
    let sb2 = Session { signers: signers.clone(), nonces: sa.nonces.clone(), comms: sa.comms.clone(), pkg: pkg_b2, shares: sh_b2 };
    let a = Sx { s: sa, msg: msg_a.clone() };
    let bs = [("B-fresh-nonces", Sx { s: sb1, msg: msg_a.clone() }), ("B-other-message", Sx { s: sb2, msg: msg_c.clone() }), ("B-both", Sx { s: sb3, msg: msg_c.clone() })];
    let d = |what: &str, extra: serde_json::Value| json!({"what": what, "n": n, "t": t, "signers": signers.iter().map(id_hex::<C>).collect::<Vec<_>>(), "extra": extra});

    // sanity: the honest sessions are accepted (otherwise nothing below means anything)
    for (nm, sx) in [("A", &a)].into_iter().chain(bs.iter().map(|(n, s)| (*n, s))) {
        for id in &signers {
            if !vss(&grp, id, &sx.s.shares[id], &sx.s.pkg, &vk) {
                ctx.viol("honest-share-rejected", nm, d("honest share rejected in its own session", json!({})));
            }
        }
    }

    // ---- 1. exhaustive slot fillings ------------------------------------------------------
    for (bname, b) in &bs {
        let full = *bname == "B-fresh-nonces";
        // commitment fillings: only meaningful when B's commitments differ from A's
        let cfills: Vec<u32> = if full { (0..(1u32 << k)).collect() } else { vec![0] };
        for cf in cfills {
            let mut comms = BTreeMap::new();
            for (i, id) in signers.iter().enumerate() {
                comms.insert(*id, if cf >> i & 1 == 1 { b.s.comms[id] } else { a.s.comms[id] });
            }
            let pkg = SigningPackage::new(comms, &a.msg);
            let is_a = cf == 0;
            let is_b = full && cf == (1u32 << k) - 1 && b.msg == a.msg;
            for sf in 0..(1u32 << k) {
                let mut shares = BTreeMap::new();
                let mut invalid: Vec<Identifier<C>> = vec![];
                for (i, id) in signers.iter().enumerate() {
                    let from_b = sf >> i & 1 == 1;
                    shares.insert(*id, if from_b { b.s.shares[id] } else { a.s.shares[id] });
                    let valid = if from_b { is_b } else { is_a };
                    if !valid {
                        invalid.push(*id);
                    }
                }
                sort_ids_numeric::<C>(&mut invalid);
                // share-level verdicts (only on the diagonal fillings to bound cost: sf==0 or sf==all)
                if sf == 0 || sf == (1u32 << k) - 1 {
                    for id in &signers {
                        let got = vss(&grp, id, &shares[id], &pkg, &vk);
                        let want = !invalid.contains(id);
                        if got != want {
                            ctx.viol("cross-session-share", if got { "accepted" } else { "rejected" },
                                d("verify_signature_share disagrees with the session model", json!({"B": bname, "commit_fill": cf, "share_fill": sf, "signer": id_hex::<C>(id)})));
                        }
                        ctx.count("share_verdicts");
                    }
                }
                let r = frost_core::aggregate_custom(&pkg, &shares, &grp.pkp, CheaterDetection::AllCheaters);
                ctx.count("aggregate_verdicts");
                match r {
                    Ok(sig) => {
                        let sb = sig.serialize().unwrap_or_default();
                        if !invalid.is_empty() {
                            ctx.viol("cross-session-aggregate", "accepted", d("aggregate accepted a mix of sessions", json!({"B": bname, "commit_fill": cf, "share_fill": sf})));
                        }
                        if !indep_verify::<C>(&vk.serialize().unwrap(), &a.msg, &sb) {
                            ctx.viol("cross-session-aggregate", "released-invalid", d("released signature does not verify", json!({"B": bname, "commit_fill": cf, "share_fill": sf})));
                        }
                    }
                    Err(e) => {
                        if invalid.is_empty() {
                            ctx.viol("cross-session-aggregate", "rejected-consistent", d("aggregate refused a consistent session", json!({"err": format!("{e:?}"), "commit_fill": cf, "share_fill": sf})));
                        } else {
                            let mut cul: Vec<Vec<u8>> = e.culprits().iter().map(id_int::<C>).collect();
                            cul.sort();
                            let want: Vec<Vec<u8>> = invalid.iter().map(id_int::<C>).collect();
                            if cul != want {
                                ctx.viol("cross-session-aggregate", "culprits", d("culprits differ from the slots carrying foreign material",
                                    json!({"B": bname, "commit_fill": cf, "share_fill": sf, "err": format!("{e:?}"), "want": invalid.iter().map(id_hex::<C>).collect::<Vec<_>>()})));
                            }
                        }
                    }
                }
                ctx.class(format!("S={k}/{bname}/cf={}/sf={}", cf.count_ones(), sf.count_ones()));
            }
        }
    }

    // ---- 2. single-field substitutions of the package (shares all from A) ------------------
    let rand_el = |p: &mut crate::rng::Pick| g::<C>() * (sc_from_be_bytes_mod::<C>(&p.bytes(48)) + one::<C>());
    let mut variants: Vec<(String, SigningPackage<C>, VerifyingKey<C>)> = vec![];
    let mut m1 = a.msg.clone();
    m1[7] ^= 0x10;
    variants.push(("message/bitflip".into(), SigningPackage::new(a.s.comms.clone(), &m1), vk));
    variants.push(("message/empty".into(), SigningPackage::new(a.s.comms.clone(), &[]), vk));
    variants.push(("message/truncated".into(), SigningPackage::new(a.s.comms.clone(), &a.msg[..39]), vk));
    variants.push(("message/extended".into(), SigningPackage::new(a.s.comms.clone(), &[&a.msg[..], &[0u8][..]].concat()), vk));
    variants.push(("message/session-B".into(), SigningPackage::new(a.s.comms.clone(), &msg_c), vk));
    let b1 = &bs[0].1;
    for (j, idj) in signers.iter().enumerate() {
        let ca = a.s.comms[idj];
        let cb = b1.s.comms[idj];
        let fresh = NonceCommitment::<C>::new(rand_el(&mut p));
        for (what, c2) in [
            ("hiding/from-B", SigningCommitments::new(*cb.hiding(), *ca.binding())),
            ("hiding/fresh", SigningCommitments::new(fresh, *ca.binding())),
            ("binding/from-B", SigningCommitments::new(*ca.hiding(), *cb.binding())),
            ("binding/fresh", SigningCommitments::new(*ca.hiding(), fresh)),
            ("swap-hiding-binding", SigningCommitments::new(*ca.binding(), *ca.hiding())),
        ] {
            let mut cm = a.s.comms.clone();
            cm.insert(*idj, c2);
            variants.push((format!("commitment/{what}/slot{j}"), SigningPackage::new(cm, &a.msg), vk));
        }
        // the substitution that keeps this signer's contribution D + rho*E to the group commitment: (D + rho*T, E - T).
        // It goes unnoticed exactly when the binding factors do not depend on this signer's commitments. (rho is read
        // from the library to build the input; the verdict is the ordinary one: the package differs, so reject.)
        for vkc in [vk, VerifyingKey::<C>::new(ident::<C>() - vk.to_element())] {
            let Ok(bfl) = frost_core::compute_binding_factor_list(&a.s.pkg, &vkc, &[]) else { continue };
            let Some(rho) = bfl.get(idj).and_then(|b| sc_decode::<C>(&b.serialize())) else { continue };
            let tt = rand_el(&mut p);
            let c2 = SigningCommitments::new(NonceCommitment::<C>::new(ca.hiding().value() + tt * rho), NonceCommitment::<C>::new(ca.binding().value() - tt));
            let mut cm = a.s.comms.clone();
            cm.insert(*idj, c2);
            variants.push((format!("commitment/contribution-preserving/slot{j}"), SigningPackage::new(cm, &a.msg), vk));
            if !C::TAPROOT {
                break;
            }
        }
        // participant replaced / removed
        if let Some(o) = outsiders.first() {
            let mut cm = a.s.comms.clone();
            cm.remove(idj);
            cm.insert(*o, ca);
            variants.push((format!("set/replaced/slot{j}"), SigningPackage::new(cm, &a.msg), vk));
        }
        if k >= 2 {
            let mut cm = a.s.comms.clone();
            cm.remove(idj);
            variants.push((format!("set/removed/slot{j}"), SigningPackage::new(cm, &a.msg), vk));
        }
    }
    if let Some(o) = outsiders.first() {
        let (_, oc) = C::api_commit(grp.kps[o].signing_share(), &mut rng);
        let mut cm = a.s.comms.clone();
        cm.insert(*o, oc);
        variants.push(("set/added".into(), SigningPackage::new(cm, &a.msg), vk));
    }
    variants.push(("group-key/plus-G".into(), a.s.pkg.clone(), VerifyingKey::<C>::new(vk.to_element() + g::<C>())));
    variants.push(("group-key/other".into(), a.s.pkg.clone(), VerifyingKey::<C>::new(rand_el(&mut p))));
    for (vname, pkg, vk2) in &variants {
        let cls = vname.split("/slot").next().unwrap().to_string();
        for id in &signers {
            if !pkg.signing_commitments().contains_key(id) {
                continue;
            }
            if vss(&grp, id, &a.s.shares[id], pkg, vk2) {
                ctx.viol("substituted-field-accepted", &cls, d("share for package A verifies under a package differing in one field", json!({"variant": vname, "signer": id_hex::<C>(id)})));
            }
            ctx.count("substitution_share_verdicts");
        }
        let shares: BTreeMap<_, _> = a.s.shares.iter().filter(|(i, _)| pkg.signing_commitments().contains_key(i)).map(|(i, s)| (*i, *s)).collect();
        let pkp2 = frost_core::keys::PublicKeyPackage::new(grp.pkp.verifying_shares().clone(), *vk2, grp.pkp.min_signers());
        for mode in [CheaterDetection::FirstCheater, CheaterDetection::Disabled] {
            if let Ok(sig) = frost_core::aggregate_custom(pkg, &shares, &pkp2, mode) {
                let _ = sig;
                ctx.viol("substituted-field-accepted", &format!("{cls}/aggregate"), d("aggregate accepted shares made for another package", json!({"variant": vname})));
            }
            ctx.count("substitution_aggregate_verdicts");
        }
        ctx.class(format!("S={k}/subst/{cls}"));
    }
    // claimed identifier of the share
    for (i, idi) in signers.iter().enumerate() {
        for (j, idj) in signers.iter().enumerate() {
            if i == j {
                continue;
            }
            // share of i presented as j's (with j's verifying share), and with i's verifying share under j's id
            if vss(&grp, idj, &a.s.shares[idi], &a.s.pkg, &vk) {
                ctx.viol("substituted-field-accepted", "claimed-identifier", d("share accepted under another signer's identifier", json!({"from": id_hex::<C>(idi), "as": id_hex::<C>(idj)})));
            }
            let vs_i = grp.pkp.verifying_shares()[idi];
            if frost_core::verify_signature_share(*idj, &vs_i, &a.s.shares[idi], &a.s.pkg, &vk).is_ok() {
                ctx.viol("substituted-field-accepted", "claimed-identifier", d("share+verifying share accepted under another identifier", json!({"from": id_hex::<C>(idi), "as": id_hex::<C>(idj)})));
            }
            ctx.count("claimed_identifier_verdicts");
        }
    }
    ctx.class(format!("S={k}/claimed-identifier"));

    // ---- 2b. the share map names signers that are not in the package --------------------------
    {
        let zero_share = SignatureShare::<C>::deserialize(&sc_bytes::<C>(&zero::<C>())).unwrap();
        let mut extras: Vec<(&str, Identifier<C>, SignatureShare<C>)> = vec![];
        if let Some(o) = outsiders.first() {
            extras.push(("member-zero-share", *o, zero_share));
            extras.push(("member-share-of-a-signer", *o, a.s.shares[&signers[0]]));
        }
        if let Ok(stranger) = Identifier::<C>::try_from(60_001u16) {
            if !grp.ids.contains(&stranger) {
                extras.push(("stranger-zero-share", stranger, zero_share));
            }
        }
        for (nm, id, sh) in extras {
            let mut m = a.s.shares.clone();
            m.insert(id, sh);
            for (mode, mname) in [(CheaterDetection::FirstCheater, "first"), (CheaterDetection::AllCheaters, "all"), (CheaterDetection::Disabled, "disabled")] {
                match frost_core::aggregate_custom(&a.s.pkg, &m, &grp.pkp, mode) {
                    Err(e) => ctx.count(&format!("share-map-superset/{nm}/{}", err_name(&e))),
                    Ok(_) => ctx.viol("share-map-not-bound-to-signer-set", &format!("{nm}/{mname}"), d("aggregate accepted a share map naming a participant that is not in the signing package", json!({"extra": id_hex::<C>(&id)}))),
                }
            }
            ctx.class(format!("S={k}/share-map-superset/{nm}"));
        }
    }

    // ---- 2c. a share filed under another identifier, the map keeping its size ------------------
    {
        let mut relabels: Vec<(&str, Identifier<C>, Identifier<C>)> = vec![];
        for (x, from) in signers.iter().enumerate() {
            if let Some(o) = outsiders.get(x % outsiders.len().max(1)) {
                relabels.push(("to-non-signing-member", *from, *o));
            }
        }
        if let Ok(stranger) = Identifier::<C>::try_from(60_002u16) {
            if !grp.ids.contains(&stranger) {
                relabels.push(("to-stranger", signers[k - 1], stranger));
            }
        }
        for (nm, from, to) in relabels {
            let mut m = a.s.shares.clone();
            let sh = m.remove(&from).unwrap();
            m.insert(to, sh);
            for (mode, mname) in [(CheaterDetection::FirstCheater, "first"), (CheaterDetection::AllCheaters, "all"), (CheaterDetection::Disabled, "disabled")] {
                match frost_core::aggregate_custom(&a.s.pkg, &m, &grp.pkp, mode) {
                    Err(e) => ctx.count(&format!("share-relabelled/{nm}/{}", err_name(&e))),
                    Ok(_) => ctx.viol("share-map-not-bound-to-signer-set", &format!("relabelled-{nm}/{mname}"), d("aggregate accepted a share filed under an identifier that is not in the signing package", json!({"from": id_hex::<C>(&from), "as": id_hex::<C>(&to)}))),
                }
                ctx.count("relabel_verdicts");
            }
            ctx.class(format!("S={k}/share-relabelled/{nm}"));
        }
        // two signers' shares exchanged (both identifiers in the package)
        if k >= 2 {
            let (i, j) = (signers[0], signers[k - 1]);
            let mut m = a.s.shares.clone();
            let (si, sj) = (m[&i], m[&j]);
            if si != sj {
                m.insert(i, sj);
                m.insert(j, si);
                for (mode, mname) in [(CheaterDetection::FirstCheater, "first"), (CheaterDetection::AllCheaters, "all")] {
                    match frost_core::aggregate_custom(&a.s.pkg, &m, &grp.pkp, mode) {
                        Err(e) => {
                            let cul = e.culprits();
                            if cul.is_empty() || cul.iter().any(|c| *c != i && *c != j) {
                                ctx.viol("substituted-field-accepted", &format!("exchanged-shares-culprits/{mname}"), d("exchanged shares: the error does not name one of the two", json!({"err": format!("{e:?}")})));
                            }
                        }
                        // the sum is unchanged, so what comes out is the session's valid signature: aggregation verifies the
                        // result first and looks at individual shares only when that fails (RFC 9591 does no more). Releasing
                        // the valid signature is therefore correct; releasing anything else is not.
                        Ok(sig) => {
                            let sb = sig.serialize().unwrap_or_default();
                            if !indep_verify::<C>(&vk.serialize().unwrap_or_default(), &a.msg, &sb) {
                                ctx.viol("substituted-field-accepted", &format!("exchanged-shares-invalid-signature/{mname}"), d("aggregate released an invalid signature for exchanged shares", json!({"sig": hex::encode(&sb)})));
                            }
                            ctx.count("exchanged_shares_released_valid_signature");
                        }
                    }
                    ctx.count("relabel_verdicts");
                }
            }
        }
    }

    // ---- 3. the signer's own entry ---------------------------------------------------------
    for id in &signers {
        let ca = a.s.comms[id];
        let cb = b1.s.comms[id];
        let mut cases: Vec<(&str, BTreeMap<Identifier<C>, SigningCommitments<C>>)> = vec![];
        let mut cm = a.s.comms.clone();
        cm.remove(id);
        if let Some(o) = outsiders.first() {
            cm.insert(*o, ca); // keep the count up so only the missing-entry check can refuse
        }
        cases.push(("own-missing", cm));
        for (nm, c2) in [
            ("own-hiding-differs", SigningCommitments::new(*cb.hiding(), *ca.binding())),
            ("own-binding-differs", SigningCommitments::new(*ca.hiding(), *cb.binding())),
            ("own-both-differ", cb),
            ("own-swapped", SigningCommitments::new(*ca.binding(), *ca.hiding())),
        ] {
            let mut cm = a.s.comms.clone();
            cm.insert(*id, c2);
            cases.push((nm, cm));
        }
        // the signer's real commitments are present, but filed under somebody else: its own slot holds foreign material
        if let Some(other) = signers.iter().find(|o| *o != id) {
            let mut cm = a.s.comms.clone();
            cm.insert(*id, a.s.comms[other]);
            cm.insert(*other, ca);
            cases.push(("own-swapped-with-other-signer", cm));
            let mut cm = a.s.comms.clone();
            cm.insert(*id, cb);
            cm.insert(*other, ca);
            cases.push(("own-from-B-real-one-under-other-signer", cm));
        }
        if let Some(o) = outsiders.first() {
            let mut cm = a.s.comms.clone();
            cm.insert(*id, cb);
            cm.insert(*o, ca);
            cases.push(("own-from-B-real-one-under-outsider", cm));
        }
        for (nm, cm) in cases {
            let pkg = SigningPackage::new(cm, &a.msg);
            match C::api_sign(&pkg, &a.s.nonces[id], &grp.kps[id]) {
                Err(e) => ctx.count(&format!("own-entry/{nm}/{}", err_name(&e))),
                Ok(_) => ctx.viol("signs-with-wrong-own-entry", nm, d("sign returned Ok", json!({"signer": id_hex::<C>(id)}))),
            }
            ctx.class(format!("S={k}/{nm}"));
        }
        // nonces from session B with package A (own entry differs from the nonces' commitments)
        match C::api_sign(&a.s.pkg, &b1.s.nonces[id], &grp.kps[id]) {
            Err(e) => ctx.count(&format!("own-entry/nonces-of-B/{}", err_name(&e))),
            Ok(_) => ctx.viol("signs-with-wrong-own-entry", "nonces-of-B", d("sign returned Ok with another session's nonces", json!({"signer": id_hex::<C>(id)}))),
        }
    }

    // ---- 4. identity commitments -----------------------------------------------------------
    let idc = NonceCommitment::<C>::new(ident::<C>());
    for (j, idj) in signers.iter().enumerate() {
        let ca = a.s.comms[idj];
        for (nm, c2) in [
            ("hiding-identity", SigningCommitments::new(idc, *ca.binding())),
            ("binding-identity", SigningCommitments::new(*ca.hiding(), idc)),
            ("both-identity", SigningCommitments::new(idc, idc)),
        ] {
            let mut cm = a.s.comms.clone();
            cm.insert(*idj, c2);
            let pkg = SigningPackage::new(cm, &a.msg);
            for id in &signers {
                if id == idj {
                    continue; // refused by the own-entry check; the identity check is what is probed
                }
                match C::api_sign(&pkg, &a.s.nonces[id], &grp.kps[id]) {
                    Err(e) => ctx.count(&format!("identity/{nm}/sign/{}", err_name(&e))),
                    Ok(_) => ctx.viol("identity-commitment-accepted", &format!("sign/{nm}"), d("sign returned Ok for a package with an identity commitment", json!({"slot": j, "signer": id_hex::<C>(id)}))),
                }
                if vss(&grp, id, &a.s.shares[id], &pkg, &vk) {
                    ctx.viol("identity-commitment-accepted", &format!("verify-share/{nm}"), d("share verified under a package with an identity commitment", json!({"slot": j})));
                }
            }
            for mode in [CheaterDetection::FirstCheater, CheaterDetection::AllCheaters, CheaterDetection::Disabled] {
                match frost_core::aggregate_custom(&pkg, &a.s.shares, &grp.pkp, mode) {
                    Err(e) => ctx.count(&format!("identity/{nm}/aggregate/{}", err_name(&e))),
                    Ok(_) => ctx.viol("identity-commitment-accepted", &format!("aggregate/{nm}"), d("aggregate returned Ok", json!({"slot": j}))),
                }
            }
            ctx.class(format!("S={k}/{nm}"));
        }
    }
    // a signer holding a zero nonce pair would publish identity commitments: the package built from
    // them must be refused by the signer itself as well (its own entry matches, so only the identity check applies)
    if ctx.samples.is_empty() {
        ctx.sample(json!({"n": n, "t": t, "ids": kind, "signers": signers.iter().map(id_hex::<C>).collect::<Vec<_>>(),
            "explored": format!("2^{k} commitment fillings x 2^{k} share fillings from sessions A/B; {} single-field package substitutions; own-entry and identity-commitment cases", variants.len())}));
    }
}
