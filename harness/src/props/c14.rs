//! C14 — untrusted bytes and untrusted protocol messages never cause a panic.
//!
//! Built with overflow checks and debug assertions on. Every input is written to the write-ahead
//! record *before* the call, so a shard that dies (abort, stack overflow, OOM kill under the
//! address-space limit) is attributed to its last input by the driver.

use std::collections::{BTreeMap, BTreeSet};
use std::panic::{AssertUnwindSafe, catch_unwind};

use frost_core::keys::dkg::{self, round1 as d1, round2 as d2};
use frost_core::keys::repairable::{self, Delta, Sigma};
use frost_core::keys::{
    CoefficientCommitment, KeyPackage, PublicKeyPackage, SecretShare, SigningShare, VerifiableSecretSharingCommitment,
    VerifyingShare, refresh,
};
use frost_core::round1::{SigningCommitments, SigningNonces};
use frost_core::round2::SignatureShare;
use frost_core::{CheaterDetection, Identifier, Signature, SigningPackage, VerifyingKey, batch};
use frost_rerandomized::{RandomizedParams, Randomizer};
use serde_json::json;

use crate::alg::*;
use crate::corpus::{Corpus, harvest};
use crate::ctx::LAST_PANIC;
use crate::each_wire_type;
use crate::mutate::*;
use crate::proto::*;
use crate::rng::Pick;
use crate::wire::Wire;
use crate::{Ctx, Suite};

fn short_loc(msg: &str) -> String {
    let loc = msg.split(": ").next().unwrap_or("?");
    let loc = loc.rsplit("/repo/").next().unwrap_or(loc);
    let loc = loc.rsplit("/registry/src/").next().unwrap_or(loc);
    let loc = match loc.find('/') {
        Some(i) if loc.starts_with("index.crates.io") => &loc[i + 1..],
        _ => loc,
    };
    loc.replace(' ', "_")
}

/// run `f`; a panic is the refutation event
pub fn guarded<R>(ctx: &mut Ctx, what: &str, input: &[u8], f: impl FnOnce() -> R) -> Option<R> {
    // under an interpreter (FV_TINY) every process works for a fixed wall-clock budget and then only counts what it skips;
    // the budget never decides a verdict, only how much is observed
    static START: std::sync::OnceLock<(std::time::Instant, Option<u64>)> = std::sync::OnceLock::new();
    let (t0, budget) = START.get_or_init(|| (std::time::Instant::now(), std::env::var("FV_TINY").ok().map(|v| v.parse().ok().filter(|x| *x > 1).unwrap_or(900))));
    if budget.is_some_and(|b| t0.elapsed().as_secs() > b) {
        ctx.count("skipped_after_interpreter_budget");
        return None;
    }
    ctx.wal(what, &input[..input.len().min(1 << 16)]);
    match catch_unwind(AssertUnwindSafe(f)) {
        Ok(r) => Some(r),
        Err(_) => {
            let msg = LAST_PANIC.with(|p| p.borrow_mut().take()).unwrap_or_default();
            let loc = short_loc(&msg);
            ctx.viol("panic", &format!("{what}@{loc}"), json!({"entry": what, "panic": msg, "input": hex::encode(&input[..input.len().min(8192)]), "input_len": input.len()}));
            None
        }
    }
}

/// FV_TINY: running under an interpreter (Miri); the shapes that cost tens of thousands of group operations are left out
fn tiny() -> bool {
    std::env::var("FV_TINY").is_ok()
}

pub fn run<C: Suite>(ctx: &mut Ctx) {
    let slow = C::NAME == "ed448";
    // the monitor itself: a harness-local decoder that panics on a magic byte must be caught and attributed
    if ctx.item("control: panicking decoder is caught") {
        let r = catch_unwind(AssertUnwindSafe(|| {
            let v: Vec<u8> = vec![1, 2, 3];
            let i = v.len() + std::hint::black_box(4);
            #[allow(clippy::indexing_slicing)]
            v[i]
        }));
        let msg = LAST_PANIC.with(|p| p.borrow_mut().take()).unwrap_or_default();
        let caught = r.is_err() && msg.contains("c14.rs") && msg.contains("index out of bounds");
        ctx.note("control_panic_caught", json!(caught));
        if caught {
            ctx.count("control_panic_caught");
        }
    }
    // A. every decoder of every type on mutated encodings
    let (nbin, njson): (usize, usize) = match (ctx.quick(), slow) {
        (true, true) => (500, 120),
        (true, false) => (2500, 500),
        (false, true) => (40_000, 6_000),
        (false, false) => (220_000, 30_000),
    };
    // FV_TINY: budgets for an interpreter (Miri), three orders of magnitude slower than native code
    let tiny = std::env::var("FV_TINY").is_ok();
    let (nbin, njson) = if tiny { (40, 10) } else { (nbin, njson) };
    let shapes_v = [(3u16, 2u16, "default"), (4, 3, "derived"), (5, 2, "sparse-u16"), (3, 3, "big-scalar")];
    let chunks = if ctx.quick() { 2 } else { 8 };
    for tix in 0..24usize {
        for ch in 0..chunks {
            if !ctx.item(&format!("decode type#{tix} chunk{ch}")) {
                continue;
            }
            ctx.guard(|ctx| {
                let mut co = Corpus::<C>::default();
                let mut rng = ctx.rng("harvest");
                let mut p = ctx.pick("harvest");
                let (n, t, kind) = shapes_v[ch % 4];
                if harvest::<C>(&mut co, n, t, kind, &mut rng, &mut p).is_err() {
                    return;
                }
                let mut all: Vec<Vec<u8>> = vec![];
                each_wire_type!(co, collect_encodings, &mut all);
                // a few encodings of the sibling suite with the same sizes, for cross-suite splices
                let mut k = 0usize;
                each_wire_type!(co, fuzz_type, ctx, &mut k, tix, nbin / chunks, njson / chunks, &all);
            });
        }
    }
    // B. protocol entry points on hostile, wire-representable peer material
    let entries = ["sign", "aggregate", "verify_signature_share", "key_package_try_from", "dkg_part2", "dkg_part3", "refresh_share", "refresh_dkg", "repair", "reconstruct", "public_key_package_from", "verify", "batch", "rerandomized", "taproot_tweak"];
    let reps = ctx.scale(1, 6);
    for e in entries {
        for rep in 0..reps {
            if !ctx.item(&format!("protocol {e} rep{rep}")) {
                continue;
            }
            ctx.guard(|ctx| protocol::<C>(ctx, e));
        }
    }
    // C. mutate -> decode -> consume
    let reps = ctx.scale(2, 24);
    for rep in 0..reps {
        if !ctx.item(&format!("mutate-decode-consume rep{rep}")) {
            continue;
        }
        ctx.guard(|ctx| consume::<C>(ctx));
    }
}

fn collect_encodings<C: Suite, T: Wire<C>>(vals: &[T], out: &mut Vec<Vec<u8>>) {
    for v in vals.iter().take(3) {
        if let Ok(b) = v.enc() {
            out.push(b);
        }
    }
}

#[allow(clippy::too_many_arguments)]
fn fuzz_type<C: Suite, T: Wire<C>>(vals: &[T], ctx: &mut Ctx, k: &mut usize, want: usize, nbin: usize, njson: usize, corpus: &[Vec<u8>]) {
    let mine = *k == want;
    *k += 1;
    if !mine || vals.is_empty() {
        return;
    }
    let mut p = ctx.pick(&format!("fuzz-{}", T::NAME));
    let what = format!("decode/{}", T::NAME);
    let seeds: Vec<Vec<u8>> = vals.iter().take(4).filter_map(|v| v.enc().ok()).collect();
    if seeds.is_empty() {
        return;
    }
    let mut accepted = 0u64;
    let mut run = |ctx: &mut Ctx, m: &[u8]| {
        if let Some(Ok(v)) = guarded(ctx, &what, m, || T::dec(m)) {
            accepted += 1;
            // what decodes must also be encodable and printable without panicking
            guarded(ctx, &format!("reencode/{}", T::NAME), m, || {
                let _ = v.enc();
                let _ = v.to_json();
            });
        }
        ctx.count("binary_decodes");
    };
    for s in &seeds {
        for m in truncations(s) {
            run(ctx, &m);
        }
    }
    for s in seeds.iter().take(1) {
        for m in bitflips(s).into_iter().take(600) {
            run(ctx, &m);
        }
    }
    // every other type's encoding presented to this decoder
    for o in corpus {
        run(ctx, o);
    }
    for sz in [0usize, 1, 2, 4, 5, 6, 31, 32, 33, 57, 64, 65, 114, 4096] {
        run(ctx, &vec![0u8; sz]);
        run(ctx, &vec![0xffu8; sz]);
    }
    for _ in 0..nbin {
        let s = &seeds[p.below(seeds.len())];
        let m = mutate(s, &mut p, corpus);
        run(ctx, &m);
    }
    ctx.add("binary_accepted_after_mutation", accepted);
    if T::HAS_JSON {
        let what = format!("json/{}", T::NAME);
        let jseeds: Vec<String> = vals.iter().take(4).filter_map(|v| v.to_json().ok()).collect();
        for _ in 0..njson {
            if jseeds.is_empty() {
                break;
            }
            let s = &jseeds[p.below(jseeds.len())];
            let m = mutate_json(s, &mut p);
            guarded(ctx, &what, m.as_bytes(), || T::from_json(&m).is_ok());
            ctx.count("json_decodes");
        }
        // text members (the ciphersuite name, hex strings) with a multi-byte character at every byte offset, with and without
        // the rest of the original: anything that cuts or compares such a string at a byte position must not panic
        if let Some(serde_json::Value::Object(obj)) = jseeds.first().and_then(|s| serde_json::from_str::<serde_json::Value>(s).ok()) {
            let mut texts: Vec<(Vec<String>, String)> = vec![];
            fn walk(v: &serde_json::Value, path: Vec<String>, out: &mut Vec<(Vec<String>, String)>) {
                match v {
                    serde_json::Value::String(s) => out.push((path, s.clone())),
                    serde_json::Value::Object(m) => {
                        for (k, x) in m {
                            let mut p2 = path.clone();
                            p2.push(k.clone());
                            walk(x, p2, out);
                        }
                    }
                    _ => {}
                }
            }
            walk(&serde_json::Value::Object(obj.clone()), vec![], &mut texts);
            for (path, text) in texts.iter().take(3) {
                let text = if text.len() > 48 { &text[..48] } else { &text[..] };
                for ch in ["\u{e9}", "\u{20ac}", "\u{1f600}"] {
                    for pos in 0..=text.len() {
                        if !text.is_char_boundary(pos) {
                            continue;
                        }
                        for variant in [format!("{}{ch}{}", &text[..pos], &text[pos..]), format!("{}{ch}", &text[..pos]), format!("{}{ch}{}", &text[..pos], &text[(pos + 1).min(text.len())..])] {
                            let mut v = serde_json::Value::Object(obj.clone());
                            let mut slot = &mut v;
                            for k in path {
                                slot = &mut slot[k.as_str()];
                            }
                            *slot = serde_json::Value::String(variant);
                            let m = v.to_string();
                            guarded(ctx, &what, m.as_bytes(), || T::from_json(&m).is_ok());
                            ctx.count("json_decodes");
                        }
                    }
                }
            }
        }
    }
    ctx.class(format!("decode/{}", T::NAME));
    if ctx.samples.len() < 2 {
        let s = &seeds[0];
        let m = mutate(s, &mut p, corpus);
        ctx.sample(json!({"decoder": T::NAME, "valid": hex::encode(&s[..s.len().min(120)]), "one_mutant": hex::encode(&m[..m.len().min(120)]), "mutants_run": nbin}));
    }
}

/// keep only what a peer could actually deliver: the value must survive its own wire encoding
fn launder<C: Suite, T: Wire<C>>(ctx: &mut Ctx, v: T) -> Option<T> {
    let b = guarded(ctx, &format!("encode/{}", T::NAME), &[], || v.enc())?;
    match b {
        Ok(b) => match guarded(ctx, &format!("decode/{}", T::NAME), &b, || T::dec(&b))? {
            Ok(x) => {
                ctx.count("hostile_values_wire_representable");
                Some(x)
            }
            Err(_) => {
                ctx.count("hostile_values_not_decodable");
                None
            }
        },
        Err(_) => {
            ctx.count("hostile_values_not_encodable");
            None
        }
    }
}

struct World<C: Suite> {
    grp: Grp<C>,
    other: Grp<C>,
    sess: Session<C>,
    sess_other: Session<C>,
    outsider: Identifier<C>,
    run: DkgRun<C>,
    msg: Vec<u8>,
}

fn world<C: Suite>(ctx: &Ctx) -> Option<World<C>> {
    let mut rng = ctx.rng("world");
    let mut p = ctx.pick("world");
    let (n, t) = [(3u16, 2u16), (4, 3), (5, 3)][p.below(3)];
    let grp = dealer_group::<C>(n, t, None, None, &mut rng).ok()?;
    let other = dealer_group::<C>(n, t, None, None, &mut rng).ok()?;
    let msg = p.bytes(20);
    let signers: Vec<_> = grp.ids.iter().take(t as usize).copied().collect();
    let sess = sign_session(&grp, &signers, &msg, &mut rng).ok()?;
    let sess_other = sign_session(&other, &signers, &msg, &mut rng).ok()?;
    let run = dkg_rounds::<C>(n, t, &grp.ids, &mut rng).ok()?;
    let outsider = Identifier::<C>::try_from(4242u16).ok()?;
    Some(World { grp, other, sess, sess_other, outsider, run, msg })
}

fn big_ids<C: Suite>(k: usize) -> Vec<Identifier<C>> {
    (0..k).map(|i| Identifier::<C>::new(sc_u64::<C>(100_000 + i as u64)).unwrap()).collect()
}

/// hostile signing packages (all wire-representable)
fn hostile_packages<C: Suite>(ctx: &mut Ctx, w: &World<C>, p: &mut Pick) -> Vec<(String, SigningPackage<C>)> {
    let a = &w.sess;
    let me = a.signers[0];
    let mut out: Vec<(String, SigningPackage<C>)> = vec![];
    out.push(("honest".into(), a.pkg.clone()));
    out.push(("empty-map".into(), SigningPackage::new(BTreeMap::new(), &w.msg)));
    out.push(("singleton-own".into(), SigningPackage::new([(me, a.comms[&me])].into_iter().collect(), &w.msg)));
    let mut m = a.comms.clone();
    m.remove(&me);
    out.push(("own-missing".into(), SigningPackage::new(m, &w.msg)));
    let mut m = a.comms.clone();
    for id in big_ids::<C>(if tiny() { 20 } else if ctx.quick() { 150 } else { 1200 }) {
        m.insert(id, a.comms[&me]);
    }
    out.push(("oversized-duplicated-values".into(), SigningPackage::new(m, &w.msg)));
    let mut m = BTreeMap::new();
    for id in a.signers.iter() {
        m.insert(*id, a.comms[&me]);
    }
    out.push(("all-commitments-equal".into(), SigningPackage::new(m, &w.msg)));
    // counts at the u16 boundary (the library converts several counts to u16)
    let fastc = matches!(C::NAME, "ed25519" | "ristretto255" | "secp256k1" | "secp256k1-tr");
    // (quick: only the cheaply refused maps — DKG packages, share maps, helper lists — are taken to the boundary;
    //  signing packages of that size cost seconds per call and run in the thorough tier, fast suites first)
    if !ctx.quick() && (fastc || C::NAME == "p256") && !tiny() {
        for total in [65_535usize, 65_536] {
            let mut m = a.comms.clone();
            for id in big_ids::<C>(total - m.len()) {
                m.insert(id, a.comms[&me]);
            }
            out.push((format!("count-{total}"), SigningPackage::new(m, &w.msg)));
        }
    }
    out.push(("other-group-session".into(), w.sess_other.pkg.clone()));
    let mut m = a.comms.clone();
    m.insert(w.outsider, w.sess_other.comms[&me]);
    out.push(("unknown-identifier-added".into(), SigningPackage::new(m, &w.msg)));
    out.push(("empty-message".into(), SigningPackage::new(a.comms.clone(), &[])));
    out.push(("megabyte-message".into(), SigningPackage::new(a.comms.clone(), &p.bytes(if ctx.quick() { 100_000 } else { 1 << 20 }))));
    let mut m = a.comms.clone();
    let c = a.comms[&me];
    m.insert(me, SigningCommitments::new(*c.binding(), *c.hiding()));
    out.push(("own-swapped".into(), SigningPackage::new(m, &w.msg)));
    // negated commitments cancel: hiding_i = -hiding_j makes partial sums hit the identity
    if a.signers.len() >= 2 {
        let mut m = a.comms.clone();
        let o = a.signers[1];
        let cm = a.comms[&me];
        m.insert(o, SigningCommitments::new(frost_core::round1::NonceCommitment::<C>::new(ident::<C>() - cm.hiding().value()), frost_core::round1::NonceCommitment::<C>::new(ident::<C>() - cm.binding().value())));
        out.push(("negated-commitments".into(), SigningPackage::new(m, &w.msg)));
    }
    let mut ok = vec![];
    for (n, pkg) in out {
        if let Some(x) = launder::<C, _>(ctx, pkg) {
            ok.push((n, x));
        }
    }
    ok
}

fn hostile_pkps<C: Suite>(ctx: &mut Ctx, w: &World<C>) -> Vec<(String, PublicKeyPackage<C>)> {
    let g0 = &w.grp;
    let vk = *g0.pkp.verifying_key();
    let vs = g0.pkp.verifying_shares().clone();
    let mut out: Vec<(String, PublicKeyPackage<C>)> = vec![("honest".into(), g0.pkp.clone())];
    for ms in [None, Some(0u16), Some(1), Some(65535)] {
        out.push((format!("min_signers={ms:?}"), PublicKeyPackage::new(vs.clone(), vk, ms)));
    }
    out.push(("no-verifying-shares".into(), PublicKeyPackage::new(BTreeMap::new(), vk, Some(g0.t))));
    let mut m = vs.clone();
    m.remove(&g0.ids[0]);
    out.push(("first-signer-missing".into(), PublicKeyPackage::new(m, vk, Some(g0.t))));
    // the package a group holds after one of its members was removed by a refresh: every single member missing in turn,
    // so that whoever the caller is, one variant lacks the caller itself
    for (k, id) in g0.ids.iter().enumerate().skip(1).take(4) {
        let mut m = vs.clone();
        m.remove(id);
        out.push((format!("member{k}-missing"), PublicKeyPackage::new(m, vk, Some(g0.t))));
    }
    out.push(("other-group".into(), w.other.pkp.clone()));
    out.push(("other-group-key".into(), PublicKeyPackage::new(vs.clone(), *w.other.pkp.verifying_key(), Some(g0.t))));
    let mut m = vs.clone();
    for id in big_ids::<C>(300) {
        m.insert(id, vs[&g0.ids[0]]);
    }
    out.push(("oversized".into(), PublicKeyPackage::new(m, vk, Some(g0.t))));
    let all_same: BTreeMap<_, _> = vs.keys().map(|k| (*k, VerifyingShare::<C>::new(vk.to_element()))).collect();
    out.push(("shares-equal-group-key".into(), PublicKeyPackage::new(all_same, vk, Some(g0.t))));
    let mut ok = vec![];
    for (n, x) in out {
        if let Some(x) = launder::<C, _>(ctx, x) {
            ok.push((n, x));
        }
    }
    ok
}

fn hostile_share_maps<C: Suite>(w: &World<C>) -> Vec<(String, IdMap<C, SignatureShare<C>>)> {
    let a = &w.sess;
    let mut out = vec![("honest".to_string(), a.shares.clone())];
    out.push(("empty".into(), BTreeMap::new()));
    let mut m = a.shares.clone();
    m.remove(&a.signers[0]);
    out.push(("one-missing".into(), m));
    let mut m = a.shares.clone();
    m.insert(w.outsider, a.shares[&a.signers[0]]);
    out.push(("one-extra".into(), m));
    out.push(("all-zero".into(), a.signers.iter().map(|i| (*i, SignatureShare::<C>::deserialize(&sc_bytes::<C>(&zero::<C>())).unwrap())).collect()));
    out.push(("other-session".into(), w.sess_other.shares.clone()));
    let mut m = a.shares.clone();
    for id in big_ids::<C>(200) {
        m.insert(id, a.shares[&a.signers[0]]);
    }
    out.push(("oversized".into(), m));
    let mut m = BTreeMap::new();
    for id in a.signers.iter().skip(1) {
        m.insert(*id, a.shares[id]);
    }
    m.insert(w.outsider, a.shares[&a.signers[0]]);
    out.push(("same-count-other-identifiers".into(), m));
    for total in if tiny() { vec![] } else { vec![65_535usize, 65_536] } {
        let mut m = a.shares.clone();
        for id in big_ids::<C>(total - m.len()) {
            m.insert(id, a.shares[&a.signers[0]]);
        }
        out.push((format!("count-{total}"), m));
    }
    out
}

/// `huge` entries cost seconds to evaluate (tens of thousands of scalar multiplications) and are used once per entry point
fn hostile_commitments<C: Suite>(ctx: &Ctx, base: &VerifiableSecretSharingCommitment<C>) -> Vec<(String, VerifiableSecretSharingCommitment<C>, bool)> {
    let els: Vec<CoefficientCommitment<C>> = base.coefficients().to_vec();
    let t = els.len();
    let mk = |v: Vec<CoefficientCommitment<C>>| VerifiableSecretSharingCommitment::<C>::new(v);
    let mut out = vec![("honest".to_string(), base.clone(), false), ("length-0".into(), mk(vec![]), false), ("length-1".into(), mk(els[..1].to_vec()), false)];
    if t >= 2 {
        out.push(("length-t-1".into(), mk(els[..t - 1].to_vec()), false));
    }
    let mut v = els.clone();
    v.push(els[0]);
    out.push(("length-t+1".into(), mk(v), false));
    out.push(("all-equal".into(), mk(vec![els[0]; t]), false));
    out.push(("length-300".into(), mk(vec![els[0]; 300]), false));
    // coefficients that cancel: C_1 = -C_0
    if t >= 2 {
        let mut v = els.clone();
        v[1] = CoefficientCommitment::<C>::new(ident::<C>() - els[0].value());
        out.push(("negated-entry".into(), mk(v), false));
    }
    // lengths that wrap a u16 count: to 0, to 1, to exactly t (passes every length comparison done in u16), and 70000
    let slow = C::NAME == "ed448" || C::NAME == "p256";
    if !(ctx.quick() && slow) && !tiny() {
        let mut wrap_t = els.clone();
        while wrap_t.len() < 65_536 + t {
            wrap_t.push(els[wrap_t.len() % t]);
        }
        out.push(("length-65536+t".into(), mk(wrap_t), true));
        if !ctx.quick() {
            out.push(("length-65536".into(), mk(vec![els[0]; 65_536]), true));
            out.push(("length-65537".into(), mk(vec![els[0]; 65_537]), true));
            out.push(("length-70000".into(), mk(vec![els[0]; 70_000]), true));
        }
    }
    out
}

fn protocol<C: Suite>(ctx: &mut Ctx, entry: &str) {
    let Some(w) = world::<C>(ctx) else { return };
    let mut p = ctx.pick("protocol");
    let me = w.sess.signers[0];
    let kp = w.grp.kps[&me].clone();
    let nonces: SigningNonces<C> = w.sess.nonces[&me].clone();
    let vk = *w.grp.pkp.verifying_key();
    let modes = || [(CheaterDetection::FirstCheater, "first"), (CheaterDetection::AllCheaters, "all"), (CheaterDetection::Disabled, "disabled")];
    let mut calls = 0u64;
    match entry {
        "sign" => {
            for (pn, pkg) in hostile_packages::<C>(ctx, &w, &mut p) {
                guarded(ctx, "sign", pn.as_bytes(), || C::api_sign(&pkg, &nonces, &kp).is_ok());
                calls += 1;
                ctx.class(format!("sign/{pn}"));
            }
        }
        "aggregate" => {
            let pkgs = hostile_packages::<C>(ctx, &w, &mut p);
            let pkps = hostile_pkps::<C>(ctx, &w);
            let shs = hostile_share_maps::<C>(&w);
            for (pn, pkg) in &pkgs {
                for (kn, pkp) in &pkps {
                    for (sn, sh) in &shs {
                        if ctx.quick() && pn != "honest" && kn != "honest" && sn != "honest" {
                            continue;
                        }
                        if (pn.starts_with("count-") && !(kn == "honest" && (sn == "honest" || sn.starts_with("count-")))) || (sn.starts_with("count-") && !(kn == "honest" && (pn == "honest" || pn.starts_with("count-")))) {
                            continue;
                        }
                        for (mode, mn) in modes() {
                            let label = format!("{pn}|{kn}|{sn}|{mn}");
                            guarded(ctx, "aggregate", label.as_bytes(), || frost_core::aggregate_custom(pkg, sh, pkp, mode).is_ok());
                            calls += 1;
                        }
                        ctx.class(format!("aggregate/{pn}/{kn}/{sn}"));
                    }
                }
            }
        }
        "verify_signature_share" => {
            let pkgs = hostile_packages::<C>(ctx, &w, &mut p);
            let ids = [me, w.outsider, w.sess.signers[w.sess.signers.len() - 1]];
            let vss = [w.grp.pkp.verifying_shares()[&me], w.other.pkp.verifying_shares()[&me], VerifyingShare::<C>::new(vk.to_element())];
            let vks = [vk, *w.other.pkp.verifying_key()];
            let shares = [w.sess.shares[&me], w.sess_other.shares[&me], SignatureShare::<C>::deserialize(&sc_bytes::<C>(&zero::<C>())).unwrap()];
            for (pn, pkg) in &pkgs {
                if pn.starts_with("count-") {
                    guarded(ctx, "verify_signature_share", pn.as_bytes(), || frost_core::verify_signature_share(me, &vss[0], &shares[0], pkg, &vk).is_ok());
                    calls += 1;
                    ctx.class(format!("verify_signature_share/{pn}"));
                    continue;
                }
                for id in &ids {
                    for vs in &vss {
                        for v in &vks {
                            for sh in &shares {
                                guarded(ctx, "verify_signature_share", pn.as_bytes(), || frost_core::verify_signature_share(*id, vs, sh, pkg, v).is_ok());
                                calls += 1;
                            }
                        }
                    }
                }
                ctx.class(format!("verify_signature_share/{pn}"));
            }
        }
        "key_package_try_from" | "refresh_share" => {
            let base = w.grp.shares[&me].clone();
            for (cn, comm, huge) in hostile_commitments::<C>(ctx, base.commitment()) {
                for (idn, id) in [("own", me), ("outsider", w.outsider), ("order-1", Identifier::<C>::new(neg::<C>(one::<C>())).unwrap())] {
                    for (sn, s) in [("honest", base.signing_share().to_scalar()), ("zero", zero::<C>()), ("order-1", neg::<C>(one::<C>()))] {
                        if huge && !(idn == "own" && sn == "honest") {
                            continue;
                        }
                        let sh = SecretShare::<C>::new(id, SigningShare::<C>::new(s), comm.clone());
                        let Some(sh) = launder::<C, _>(ctx, sh) else { continue };
                        let label = format!("{cn}|{idn}|{sn}");
                        if entry == "key_package_try_from" {
                            guarded(ctx, "KeyPackage::try_from", label.as_bytes(), || KeyPackage::<C>::try_from(sh.clone()).is_ok());
                            if !huge {
                                guarded(ctx, "SecretShare::verify", label.as_bytes(), || sh.verify().is_ok());
                            }
                        } else {
                            guarded(ctx, "refresh_share", label.as_bytes(), || C::api_refresh_share(sh.clone(), &kp).is_ok());
                        }
                        calls += 1;
                    }
                }
                ctx.class(format!("{entry}/{cn}"));
            }
        }
        "dkg_part2" | "dkg_part3" | "refresh_dkg" => {
            let run = &w.run;
            let (r1, r2) = dkg_inbox(run, &me);
            let sec1 = run.r1_secret[&me].clone();
            let sec2 = run.r2_secret[&me].clone();
            let sender = *r1.keys().next().unwrap();
            let base = r1[&sender].clone();
            // hostile round-one maps
            let mut r1maps: Vec<(String, IdMap<C, d1::Package<C>>)> = vec![("honest".into(), r1.clone()), ("empty".into(), BTreeMap::new())];
            r1maps.push(("singleton".into(), [(sender, base.clone())].into_iter().collect()));
            let mut m = r1.clone();
            m.insert(me, run.r1_pkgs[&me].clone());
            r1maps.push(("own-included".into(), m));
            let mut m = r1.clone();
            let x = m.remove(&sender).unwrap();
            m.insert(me, x);
            r1maps.push(("filed-under-own".into(), m));
            let mut m = r1.clone();
            for id in big_ids::<C>(80) {
                m.insert(id, base.clone());
            }
            r1maps.push(("oversized".into(), m));
            for total in if tiny() { vec![] } else { vec![65_534usize, 65_535, 65_536] } {
                let mut m = r1.clone();
                for id in big_ids::<C>(total - m.len()) {
                    m.insert(id, base.clone());
                }
                r1maps.push((format!("count-{total}"), m));
            }
            let mut huge_maps: Vec<String> = vec![];
            for (cn, comm, huge) in hostile_commitments::<C>(ctx, base.commitment()) {
                if huge && entry == "refresh_dkg" {
                    continue;
                }
                let pk = d1::Package::new(comm, *base.proof_of_knowledge());
                if let Some(pk) = launder::<C, _>(ctx, pk) {
                    let mut m = r1.clone();
                    m.insert(sender, pk.clone());
                    r1maps.push((format!("commitment-{cn}"), m));
                    if huge {
                        huge_maps.push(format!("commitment-{cn}"));
                        continue;
                    }
                    let allsame: IdMap<C, d1::Package<C>> = r1.keys().map(|k| (*k, pk.clone())).collect();
                    r1maps.push((format!("all-commitment-{cn}"), allsame));
                }
            }
            let mut m = r1.clone();
            let pk = d1::Package::new(base.commitment().clone(), Signature::<C>::new(*base.proof_of_knowledge().R(), zero::<C>()));
            if let Some(pk) = launder::<C, _>(ctx, pk) {
                m.insert(sender, pk);
                r1maps.push(("pok-zero-response".into(), m));
            }
            // hostile round-two maps
            let mut r2maps: Vec<(String, IdMap<C, d2::Package<C>>)> = vec![("honest".into(), r2.clone()), ("empty".into(), BTreeMap::new())];
            let mut m = r2.clone();
            m.insert(me, r2[&sender].clone());
            r2maps.push(("own-included".into(), m));
            let mut m = r2.clone();
            let x = m.remove(&sender).unwrap();
            m.insert(w.outsider, x);
            r2maps.push(("unknown-key".into(), m));
            r2maps.push(("all-zero".into(), r2.keys().map(|k| (*k, d2::Package::new(SigningShare::<C>::new(zero::<C>())))).collect()));
            let mut m = r2.clone();
            for id in big_ids::<C>(80) {
                m.insert(id, r2[&sender].clone());
            }
            r2maps.push(("oversized".into(), m));
            for total in if tiny() { vec![] } else { vec![65_535usize, 65_536] } {
                let mut m = r2.clone();
                for id in big_ids::<C>(total - m.len()) {
                    m.insert(id, r2[&sender].clone());
                }
                r2maps.push((format!("count-{total}"), m));
            }
            if entry == "dkg_part2" {
                for (n1, m1) in &r1maps {
                    guarded(ctx, "dkg::part2", n1.as_bytes(), || C::api_dkg_part2(sec1.clone(), m1).is_ok());
                    calls += 1;
                    ctx.class(format!("dkg_part2/{n1}"));
                }
            } else if entry == "dkg_part3" {
                for (n1, m1) in &r1maps {
                    for (n2, m2) in &r2maps {
                        if huge_maps.contains(n1) && n2 != "honest" {
                            continue;
                        }
                        if (n1.starts_with("count-") || n2.starts_with("count-")) && !(n1 == "honest" || n2 == "honest" || n1 == n2) {
                            continue;
                        }
                        let label = format!("{n1}|{n2}");
                        guarded(ctx, "dkg::part3", label.as_bytes(), || C::api_dkg_part3(&sec2, m1, m2).is_ok());
                        calls += 1;
                    }
                    ctx.class(format!("dkg_part3/{n1}"));
                }
            } else {
                // distributed refresh with the same hostile maps (commitments there are one entry shorter)
                let n = w.grp.n;
                let t = w.grp.t;
                let mut rng = ctx.rng("refresh");
                if let Ok((rs1, _)) = C::api_refresh_dkg_part1(me, n, t, &mut rng) {
                    let mut honest_r1 = BTreeMap::new();
                    let mut secs = BTreeMap::new();
                    for id in w.grp.ids.iter().filter(|i| **i != me) {
                        if let Ok((s, pk)) = C::api_refresh_dkg_part1(*id, n, t, &mut rng) {
                            honest_r1.insert(*id, pk);
                            secs.insert(*id, s);
                        }
                    }
                    let pkps_all = hostile_pkps::<C>(ctx, &w);
                    let mut maps = r1maps.clone();
                    maps.push(("honest-refresh".into(), honest_r1.clone()));
                    for (n1, m1) in &maps {
                        let r = guarded(ctx, "refresh_dkg_part2", n1.as_bytes(), || C::api_refresh_dkg_part2(rs1.clone(), m1));
                        calls += 1;
                        let sec2r = match r {
                            Some(Ok((s2, _))) => s2,
                            _ => continue,
                        };
                        for (n2, m2) in &r2maps {
                            if (n1.starts_with("count-") || n2.starts_with("count-")) && !(n1.starts_with("honest") || n2 == "honest" || n1 == n2) {
                                continue;
                            }
                            for (kn, pkp) in pkps_all.iter().take(if n1.starts_with("count-") || n2.starts_with("count-") { 1 } else if ctx.quick() { 5 } else { 20 }) {
                                let label = format!("{n1}|{n2}|{kn}");
                                guarded(ctx, "refresh_dkg_shares", label.as_bytes(), || C::api_refresh_dkg_shares(&sec2r, m1, m2, pkp.clone(), kp.clone()).is_ok());
                                calls += 1;
                            }
                        }
                        ctx.class(format!("refresh_dkg/{n1}"));
                    }
                    // a completely honest refresh run, finished with every hostile public key package: only the package
                    // (peer material: it is what the group distributes) is wrong, so the call gets as far as it can
                    let mut all_r1 = honest_r1.clone();
                    if let Ok((rs1b, mine)) = C::api_refresh_dkg_part1(me, n, t, &mut rng) {
                        all_r1.insert(me, mine);
                        let inbox = |who: &Identifier<C>| {
                            let mut m = all_r1.clone();
                            m.remove(who);
                            m
                        };
                        if let Ok((sec2_me, _)) = C::api_refresh_dkg_part2(rs1b, &inbox(&me)) {
                            let mut honest_r2 = BTreeMap::new();
                            for (j, sj) in &secs {
                                if let Ok((_, out)) = C::api_refresh_dkg_part2(sj.clone(), &inbox(j)) {
                                    if let Some(pk) = out.get(&me) {
                                        honest_r2.insert(*j, pk.clone());
                                    }
                                }
                            }
                            for (kn, pkp) in &pkps_all {
                                guarded(ctx, "refresh_dkg_shares", format!("honest-run|{kn}").as_bytes(), || C::api_refresh_dkg_shares(&sec2_me, &inbox(&me), &honest_r2, pkp.clone(), kp.clone()).is_ok());
                                calls += 1;
                            }
                            ctx.class("refresh_dkg/honest-run-hostile-package");
                        }
                    }
                }
            }
        }
        "repair" => {
            let ids = &w.grp.ids;
            let lists: Vec<(&str, Vec<Identifier<C>>)> = vec![
                ("honest", ids[..].to_vec()),
                ("empty", vec![]),
                ("only-caller", vec![me]),
                ("duplicates", vec![me, me, ids[1], ids[1]]),
                ("without-caller", ids[1..].to_vec()),
                ("with-outsider", [ids.to_vec(), vec![w.outsider]].concat()),
                ("thousand", [ids.to_vec(), big_ids::<C>(1000)].concat()),
                ("count-65535", [ids.to_vec(), big_ids::<C>(if tiny() { 0 } else { 65_535 - ids.len() })].concat()),
                ("count-65536", [ids.to_vec(), big_ids::<C>(if tiny() { 0 } else { 65_536 - ids.len() })].concat()),
            ];
            let mut rng = ctx.rng("repair");
            for (ln, l) in &lists {
                for (pn, part) in [("other", ids[ids.len() - 1]), ("caller-itself", me), ("outsider", w.outsider)] {
                    let label = format!("{ln}|{pn}");
                    guarded(ctx, "repair_share_part1", label.as_bytes(), || C::api_repair_part1(l, &kp, &mut rng, part).is_ok());
                    calls += 1;
                }
                ctx.class(format!("repair/part1/{ln}"));
            }
            let d0 = Delta::<C>::new(one::<C>());
            for (dn, ds) in [("empty", vec![]), ("one", vec![d0]), ("many", vec![d0; 5000])] {
                guarded(ctx, "repair_share_part2", dn.as_bytes(), || C::api_repair_part2(&ds));
                calls += 1;
            }
            let s0 = Sigma::<C>::new(one::<C>());
            for (sn, ss) in [("empty", vec![]), ("one", vec![s0]), ("many", vec![s0; 5000])] {
                for (kn, pkp) in hostile_pkps::<C>(ctx, &w) {
                    let label = format!("{sn}|{kn}");
                    guarded(ctx, "repair_share_part3", label.as_bytes(), || C::api_repair_part3(&ss, w.outsider, &pkp).is_ok());
                    calls += 1;
                }
                ctx.class(format!("repair/part3/{sn}"));
            }
        }
        "reconstruct" => {
            let kps: Vec<KeyPackage<C>> = w.grp.kps.values().cloned().collect();
            let lying = |ms: u16| -> Vec<KeyPackage<C>> { kps.iter().map(|k| KeyPackage::new(*k.identifier(), *k.signing_share(), *k.verifying_share(), *k.verifying_key(), ms)).collect() };
            let mut lists: Vec<(String, Vec<KeyPackage<C>>)> = vec![("honest".into(), kps.clone()), ("empty".into(), vec![]), ("one".into(), kps[..1].to_vec()), ("duplicates".into(), vec![kps[0].clone(), kps[0].clone(), kps[1].clone()])];
            for ms in [0u16, 1, 65535] {
                lists.push((format!("min_signers={ms}"), lying(ms)));
            }
            lists.push(("mixed-groups".into(), vec![kps[0].clone(), w.other.kps.values().nth(1).unwrap().clone()]));
            for (ln, l) in lists {
                let l: Vec<KeyPackage<C>> = l.into_iter().filter_map(|k| launder::<C, _>(ctx, k)).collect();
                guarded(ctx, "reconstruct", ln.as_bytes(), || C::api_reconstruct(&l).is_ok());
                calls += 1;
                ctx.class(format!("reconstruct/{ln}"));
            }
        }
        "public_key_package_from" => {
            let base = w.grp.shares[&me].commitment().clone();
            let idsets: Vec<(&str, BTreeSet<Identifier<C>>)> = vec![("honest", w.grp.ids.iter().copied().collect()), ("empty", BTreeSet::new()), ("big", big_ids::<C>(if ctx.quick() { 50 } else { 400 }).into_iter().collect())];
            let comms = hostile_commitments::<C>(ctx, &base);
            let one_id: BTreeSet<Identifier<C>> = [w.grp.ids[0]].into_iter().collect();
            for (cn, comm, huge) in &comms {
                if *huge {
                    guarded(ctx, "PublicKeyPackage::from_commitment", cn.as_bytes(), || PublicKeyPackage::<C>::from_commitment(&one_id, comm).is_ok());
                    calls += 1;
                    ctx.class(format!("from_commitment/{cn}"));
                    continue;
                }
                for (sn, set) in &idsets {
                    let label = format!("{cn}|{sn}");
                    guarded(ctx, "PublicKeyPackage::from_commitment", label.as_bytes(), || PublicKeyPackage::<C>::from_commitment(set, comm).is_ok());
                    calls += 1;
                }
                ctx.class(format!("from_commitment/{cn}"));
            }
            // from_dkg_commitments: maps of commitments of different lengths
            for (cn, comm, huge) in &comms {
                for (c2n, comm2, huge2) in comms.iter() {
                    if *huge2 || (*huge && c2n != "honest") {
                        continue;
                    }
                    let mut m: BTreeMap<Identifier<C>, &VerifiableSecretSharingCommitment<C>> = BTreeMap::new();
                    m.insert(w.grp.ids[0], comm);
                    m.insert(w.grp.ids[1], comm2);
                    let label = format!("{cn}|{c2n}");
                    guarded(ctx, "PublicKeyPackage::from_dkg_commitments", label.as_bytes(), || PublicKeyPackage::<C>::from_dkg_commitments(&m).is_ok());
                    calls += 1;
                }
            }
            let empty: BTreeMap<Identifier<C>, &VerifiableSecretSharingCommitment<C>> = BTreeMap::new();
            guarded(ctx, "PublicKeyPackage::from_dkg_commitments", b"empty", || PublicKeyPackage::<C>::from_dkg_commitments(&empty).is_ok());
        }
        "verify" | "batch" => {
            let sig = C::api_aggregate(&w.sess.pkg, &w.sess.shares, &w.grp.pkp).ok();
            let Some(sig) = sig else { return };
            let sigs = [sig, Signature::<C>::new(*sig.R(), zero::<C>()), Signature::<C>::new(vk.to_element(), *sig.z()), Signature::<C>::new(ident::<C>() - *sig.R(), neg::<C>(*sig.z()))];
            let vks = [vk, *w.other.pkp.verifying_key(), VerifyingKey::<C>::new(*sig.R())];
            let msgs = [w.msg.clone(), vec![], p.bytes(if ctx.quick() { 50_000 } else { 1 << 20 })];
            if entry == "verify" {
                for s in &sigs {
                    let Some(s) = launder::<C, _>(ctx, *s) else { continue };
                    for v in &vks {
                        for m in &msgs {
                            guarded(ctx, "VerifyingKey::verify", &m[..m.len().min(64)], || v.verify(m, &s).is_ok());
                            calls += 1;
                        }
                    }
                }
                ctx.class("verify");
            } else {
                for size in [0usize, 1, 2, 17, if ctx.quick() { 40 } else { 600 }] {
                    let mut ver = batch::Verifier::<C>::new();
                    let mut ok = true;
                    for i in 0..size {
                        match guarded(ctx, "batch::Item::new", &[i as u8], || batch::Item::<C>::new(vks[i % 3], sigs[i % 4], &msgs[i % 2])) {
                            Some(Ok(it)) => {
                                guarded(ctx, "batch::Item::verify_single", &[i as u8], || it.clone().verify_single().is_ok());
                                ver.queue(it)
                            }
                            _ => ok = false,
                        }
                    }
                    let _ = ok;
                    let mut rng = ctx.rng("batch");
                    guarded(ctx, "batch::Verifier::verify", &[size as u8], || ver.verify(&mut rng).is_ok());
                    calls += 1;
                    ctx.class(format!("batch/size={size}"));
                }
            }
        }
        "rerandomized" => {
            let pkgs = hostile_packages::<C>(ctx, &w, &mut p);
            let seeds: Vec<Vec<u8>> = vec![vec![], vec![0; 32], p.bytes(C::SCALAR_LEN), p.bytes(if ctx.quick() { 10_000 } else { 1 << 20 })];
            let mut rng = ctx.rng("rerand");
            for (pn, pkg) in &pkgs {
                if pn.starts_with("count-") {
                    continue;
                }
                for sd in &seeds {
                    guarded(ctx, "sign_with_randomizer_seed", pn.as_bytes(), || frost_rerandomized::sign_with_randomizer_seed(pkg, &nonces, &kp, sd).is_ok());
                    guarded(ctx, "RandomizedParams::regenerate", pn.as_bytes(), || RandomizedParams::<C>::regenerate_from_seed_and_commitments(&vk, sd, pkg.signing_commitments()).is_ok());
                    calls += 2;
                }
                guarded(ctx, "RandomizedParams::new_from_commitments", pn.as_bytes(), || RandomizedParams::<C>::new_from_commitments(&vk, pkg.signing_commitments(), &mut rng).is_ok());
                ctx.class(format!("rerandomized/{pn}"));
            }
            let params = [RandomizedParams::<C>::from_randomizer(&vk, Randomizer::<C>::from_scalar(zero::<C>())), RandomizedParams::<C>::from_randomizer(&vk, Randomizer::<C>::from_scalar(neg::<C>(one::<C>())))];
            let shs = hostile_share_maps::<C>(&w);
            let pkps = hostile_pkps::<C>(ctx, &w);
            for (pn, pkg) in &pkgs {
                if pn.starts_with("count-") {
                    continue;
                }
                for (kn, pkp) in &pkps {
                    for (sn, sh) in shs.iter().take(if ctx.quick() { 3 } else { 8 }) {
                        for pr in &params {
                            for (mode, mn) in modes() {
                                let label = format!("{pn}|{kn}|{sn}|{mn}");
                                guarded(ctx, "rerandomized::aggregate_custom", label.as_bytes(), || frost_rerandomized::aggregate_custom(pkg, sh, pkp, mode, pr).is_ok());
                                calls += 1;
                            }
                        }
                    }
                }
            }
        }
        "taproot_tweak" => {
            if C::TAPROOT {
                calls += taproot::<C>(ctx, &w, &mut p);
            }
        }
        _ => {}
    }
    ctx.add("protocol_calls", calls);
    if ctx.samples.len() < 3 && calls > 0 {
        ctx.sample(json!({"entry": entry, "calls": calls, "hostile_material": "empty / singleton / oversized maps, duplicated values, identifiers absent from one argument, commitment vectors of length 0,1,t-1,t+1,65536,65537,70000, thresholds None/0/1/65535, other-session and other-group material — every value laundered through its own wire encoding"}));
    }
}

fn taproot<C: Suite>(ctx: &mut Ctx, _w: &World<C>, p: &mut Pick) -> u64 {
    use frost_secp256k1_tr as tr;
    use frost_secp256k1_tr::Secp256K1Sha256TR as T;
    use frost_secp256k1_tr::keys::Tweak;
    let Some(w) = world::<T>(ctx) else { return 0 };
    let me = w.sess.signers[0];
    let kp = w.grp.kps[&me].clone();
    let nonces = w.sess.nonces[&me].clone();
    let roots: Vec<Option<Vec<u8>>> = vec![None, Some(vec![]), Some(vec![0]), Some(p.bytes(32)), Some(p.bytes(31)), Some(p.bytes(33)), Some(p.bytes(100_000))];
    let mut calls = 0;
    let pkgs = hostile_packages::<T>(ctx, &w, p);
    let pkps = hostile_pkps::<T>(ctx, &w);
    let shs = hostile_share_maps::<T>(&w);
    for r in &roots {
        let rr = r.as_deref();
        for (pn, pkg) in &pkgs {
            if pn.starts_with("count-") {
                continue;
            }
            guarded(ctx, "sign_with_tweak", pn.as_bytes(), || tr::round2::sign_with_tweak(pkg, &nonces, &kp, rr).is_ok());
            calls += 1;
            for (kn, pkp) in &pkps {
                for (sn, sh) in shs.iter().take(if ctx.quick() { 3 } else { 8 }) {
                    let label = format!("{pn}|{kn}|{sn}");
                    guarded(ctx, "aggregate_with_tweak", label.as_bytes(), || tr::aggregate_with_tweak(pkg, sh, pkp, rr).is_ok());
                    calls += 1;
                }
            }
        }
        for (kn, pkp) in &pkps {
            guarded(ctx, "PublicKeyPackage::tweak", kn.as_bytes(), || pkp.clone().tweak(rr));
            calls += 1;
        }
        ctx.class(format!("taproot/root={}", r.as_ref().map(|x| x.len().to_string()).unwrap_or("none".into())));
    }
    calls
}

/// mutated encodings that still decode are handed to the steps that consume such messages
fn consume<C: Suite>(ctx: &mut Ctx) {
    let Some(w) = world::<C>(ctx) else { return };
    let mut p = ctx.pick("consume");
    let me = w.sess.signers[0];
    let kp = w.grp.kps[&me].clone();
    let nonces = w.sess.nonces[&me].clone();
    let per = ctx.scale(300, 2000);
    let corpus: Vec<Vec<u8>> = vec![w.sess.pkg.serialize().unwrap(), w.grp.pkp.serialize().unwrap(), w.grp.shares[&me].serialize().unwrap(), w.run.r1_pkgs[&me].serialize().unwrap()];
    fn survivors<C: Suite, T: Wire<C>>(ctx: &mut Ctx, seed: &T, per: usize, p: &mut Pick, corpus: &[Vec<u8>]) -> Vec<T> {
        let Ok(b) = seed.enc() else { return vec![] };
        let mut out = vec![seed.clone()];
        for _ in 0..per {
            let m = mutate(&b, p, corpus);
            if let Some(Ok(v)) = guarded(ctx, &format!("decode/{}", T::NAME), &m, || T::dec(&m)) {
                if &v != seed && out.len() < 40 {
                    out.push(v);
                }
            }
            ctx.count("binary_decodes");
        }
        ctx.add(&format!("survivors/{}", T::NAME), out.len() as u64 - 1);
        out
    }
    let pkgs = survivors::<C, _>(ctx, &w.sess.pkg, per, &mut p, &corpus);
    let pkps = survivors::<C, _>(ctx, &w.grp.pkp, per, &mut p, &corpus);
    let shares = survivors::<C, _>(ctx, &w.grp.shares[&me], per, &mut p, &corpus);
    let sender = *w.run.r1_pkgs.keys().find(|k| **k != me).unwrap();
    let r1s = survivors::<C, _>(ctx, &w.run.r1_pkgs[&sender], per, &mut p, &corpus);
    let r2s = survivors::<C, _>(ctx, &w.run.r2_pkgs[&sender][&me], per / 4, &mut p, &corpus);
    let sshares = survivors::<C, _>(ctx, &w.sess.shares[&me], per / 4, &mut p, &corpus);
    let mut calls = 0u64;
    for pkg in &pkgs {
        guarded(ctx, "sign", b"mutated-package", || C::api_sign(pkg, &nonces, &kp).is_ok());
        for pkp in pkps.iter().take(8) {
            for ss in sshares.iter().take(4) {
                let mut sh = w.sess.shares.clone();
                sh.insert(me, *ss);
                for mode in [CheaterDetection::FirstCheater, CheaterDetection::AllCheaters, CheaterDetection::Disabled] {
                    guarded(ctx, "aggregate", b"mutated-package+pkp+share", || frost_core::aggregate_custom(pkg, &sh, pkp, mode).is_ok());
                    calls += 1;
                }
            }
        }
    }
    for pkp in &pkps {
        guarded(ctx, "aggregate", b"mutated-pkp", || C::api_aggregate(&w.sess.pkg, &w.sess.shares, pkp).is_ok());
        guarded(ctx, "repair_share_part3", b"mutated-pkp", || C::api_repair_part3(&[], me, pkp).is_ok());
        let mut rng = ctx.rng("consume-refresh");
        guarded(ctx, "compute_refreshing_shares", b"mutated-pkp", || C::api_compute_refreshing_shares(pkp.clone(), &w.grp.ids, &mut rng).is_ok());
        calls += 3;
    }
    for sh in &shares {
        guarded(ctx, "KeyPackage::try_from", b"mutated-share", || KeyPackage::<C>::try_from(sh.clone()).is_ok());
        guarded(ctx, "refresh_share", b"mutated-share", || C::api_refresh_share(sh.clone(), &kp).is_ok());
        calls += 2;
    }
    let (r1, r2) = dkg_inbox(&w.run, &me);
    for pk in &r1s {
        let mut m = r1.clone();
        m.insert(sender, pk.clone());
        guarded(ctx, "dkg::part2", b"mutated-r1", || C::api_dkg_part2(w.run.r1_secret[&me].clone(), &m).is_ok());
        for pk2 in r2s.iter().take(6) {
            let mut m2 = r2.clone();
            m2.insert(sender, pk2.clone());
            guarded(ctx, "dkg::part3", b"mutated-r1+r2", || C::api_dkg_part3(&w.run.r2_secret[&me], &m, &m2).is_ok());
            calls += 1;
        }
        calls += 1;
    }
    ctx.add("consume_calls", calls);
    ctx.class("mutate-decode-consume");
}
