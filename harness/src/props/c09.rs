//! C09 — no delivery history of keygen messages lets honest parties silently diverge.
//!
//! Scripted single-threaded network: two concurrent runs A and B over the same participants; each
//! slot of each call may hold what that sender produced in either run for any addressee, or nothing.
//! Executable acceptance model (the oracle):
//!   part2 ok  <=> no round-one slot absent
//!   part3 ok  <=> part2 ok, every round-two slot j present with run(r2[j]) == run(r1[j]) and addressee(r2[j]) == me

use std::collections::BTreeMap;

use frost_core::Identifier;
use frost_core::keys::dkg::{self, round1, round2};
use serde_json::json;

use crate::alg::*;
use crate::gen_::*;
use crate::props::c01::judge_session;
use crate::props::c07::judge_dkg;
use crate::proto::*;
use crate::{Ctx, Suite};

pub fn run<C: Suite>(ctx: &mut Ctx) {
    partial_n5::<C>(ctx);
    let slow = C::NAME == "ed448";
    let heavy = slow || C::NAME == "p256";
    let ns: Vec<u16> = if ctx.quick() && heavy { vec![3] } else { vec![3, 4] };
    for n in ns {
        for t in 2..=n {
            for kind in ["default", "derived"] {
                if kind == "derived" && (n == 4 || (ctx.quick() && slow)) {
                    continue;
                }
                // one item per receiver so that the exhaustive sweep spreads over the shards
                let mut p = ctx.pick_global(&format!("ids-{n}-{t}-{kind}"));
                let ids = identifiers::<C>(kind, n as usize, &mut p);
                for r in 0..n as usize {
                    if !ctx.item(&format!("n={n} t={t} ids={kind} receiver#{r}")) {
                        continue;
                    }
                    let ids = ids.clone();
                    ctx.guard(|ctx| receiver::<C>(ctx, n, t, t, kind, &ids, r));
                }
                // the concurrent run B may have been started with another threshold
                for tb in [t + 1, t.saturating_sub(1)] {
                    if tb < 2 || tb > n || kind != "default" {
                        continue;
                    }
                    for r in 0..n as usize {
                        if !ctx.item(&format!("n={n} t={t} tB={tb} ids={kind} receiver#{r}")) {
                            continue;
                        }
                        let ids = ids.clone();
                        ctx.guard(|ctx| receiver::<C>(ctx, n, t, tb, kind, &ids, r));
                    }
                }
                if ctx.item(&format!("n={n} t={t} ids={kind} common-sets")) {
                    let ids = ids.clone();
                    ctx.guard(|ctx| common_sets::<C>(ctx, n, t, kind, &ids));
                }
            }
        }
    }
}

/// thorough only, fast suites: n = 5, t = 3, receivers #0 and #4 — beyond the exhaustive scope, same model
pub fn partial_n5<C: Suite>(ctx: &mut Ctx) {
    let fastc = matches!(C::NAME, "ed25519" | "ristretto255" | "secp256k1" | "secp256k1-tr");
    if ctx.quick() || !fastc {
        return;
    }
    let mut p = ctx.pick_global("ids-5-3-default");
    let ids = identifiers::<C>("default", 5, &mut p);
    for r in [0usize, 4] {
        if ctx.item(&format!("n=5 t=3 ids=default receiver#{r} (partial scope)")) {
            let ids = ids.clone();
            ctx.guard(|ctx| receiver::<C>(ctx, 5, 3, 3, "default", &ids, r));
        }
    }
}

fn two_runs<C: Suite>(ctx: &Ctx, n: u16, t: u16, tb: u16, ids: &[Identifier<C>], label: &str) -> Option<[DkgRun<C>; 2]> {
    // runs depend on (n,t,ids) only — every receiver item of a shape sees the same two runs
    let mut rng = crate::rng::TraceRng::from_parts(&[b"c09", &ctx.seed.to_le_bytes(), ctx.suite.as_bytes(), label.as_bytes(), &[n as u8, t as u8]]);
    let a = dkg_rounds::<C>(n, t, ids, &mut rng).ok()?;
    let b = dkg_rounds::<C>(n, tb, ids, &mut rng).ok()?;
    Some([a, b])
}

fn receiver<C: Suite>(ctx: &mut Ctx, n: u16, t: u16, tb: u16, kind: &str, ids: &[Identifier<C>], ridx: usize) {
    let Some(runs) = two_runs::<C>(ctx, n, t, tb, ids, kind) else {
        return ctx.viol("honest-dkg-failed", "", json!({"n": n, "t": t}));
    };
    let mut sorted = ids.to_vec();
    sort_ids_numeric::<C>(&mut sorted);
    let me = sorted[ridx];
    let others: Vec<Identifier<C>> = sorted.iter().filter(|i| **i != me).copied().collect();
    let m = others.len();
    let sec1 = runs[0].r1_secret[&me].clone();
    let (honest_r1, _) = dkg_inbox(&runs[0], &me);
    let honest_sec2 = match C::api_dkg_part2(sec1.clone(), &honest_r1) {
        Ok(x) => x.0,
        Err(_) => return ctx.viol("honest-dkg-failed", "control", json!({})),
    };
    // round-two options for slot j: (run, addressee) for every addressee != j, or absent
    let r2_opts: Vec<Vec<Option<(usize, Identifier<C>)>>> = others
        .iter()
        .map(|j| {
            let mut v: Vec<Option<(usize, Identifier<C>)>> = vec![None];
            for run in 0..2 {
                for addr in sorted.iter().filter(|a| *a != j) {
                    v.push(Some((run, *addr)));
                }
            }
            v
        })
        .collect();
    let d = |what: &str, extra: serde_json::Value| json!({"what": what, "n": n, "t": t, "receiver": id_hex::<C>(&me), "extra": extra});
    let mut r1_digits = vec![0usize; m]; // 0 = A, 1 = B, 2 = absent
    loop {
        let mut r1map: IdMap<C, round1::Package<C>> = BTreeMap::new();
        for (j, dgt) in r1_digits.iter().enumerate() {
            if *dgt < 2 {
                r1map.insert(others[j], runs[*dgt].r1_pkgs[&others[j]].clone());
            }
        }
        // a contribution of run B made for another threshold has a commitment of another length: part2 refuses it
        let model2 = r1_digits.iter().all(|x| *x < 2) && (tb == t || r1_digits.iter().all(|x| *x != 1));
        let p2 = C::api_dkg_part2(sec1.clone(), &r1map);
        ctx.count("part2_calls");
        if p2.is_ok() != model2 {
            ctx.viol("part2-disagrees-with-model", if p2.is_ok() { "accepted" } else { "refused" }, d("part2", json!({"r1_fill": r1_digits})));
        }
        let sec2 = match &p2 {
            Ok(x) => x.0.clone(),
            // with runs of different thresholds a participant whose part2 refused has nothing to continue with
            // (part3 relies on part2 having validated the same round-one map)
            Err(_) if tb != t => {
                ctx.class(format!("n={n}/t={t}/tB={tb}/recv{ridx}/r1={:?}/part2-refused", r1_digits));
                let mut k = 0;
                while k < m {
                    r1_digits[k] += 1;
                    if r1_digits[k] < 3 {
                        break;
                    }
                    r1_digits[k] = 0;
                    k += 1;
                }
                if k == m {
                    break;
                }
                continue;
            }
            Err(_) => honest_sec2.clone(),
        };
        let mut r2_digits = vec![0usize; m];
        loop {
            let mut r2map: IdMap<C, round2::Package<C>> = BTreeMap::new();
            let mut model3 = model2;
            for (j, dgt) in r2_digits.iter().enumerate() {
                match r2_opts[j][*dgt] {
                    None => model3 = false,
                    Some((run, addr)) => {
                        r2map.insert(others[j], runs[run].r2_pkgs[&others[j]][&addr].clone());
                        if addr != me || r1_digits[j] != run {
                            model3 = false;
                        }
                    }
                }
            }
            let p3 = C::api_dkg_part3(&sec2, &r1map, &r2map);
            ctx.count("part3_calls");
            match (&p3, model3) {
                (Ok(_), false) => ctx.viol("inconsistent-history-accepted", "", d("part3 produced key material for a history the model refuses", json!({"r1_fill": r1_digits, "r2_fill": r2_digits.iter().enumerate().map(|(j, x)| format!("{:?}", r2_opts[j][*x].map(|(r, a)| (r, id_hex::<C>(&a))))).collect::<Vec<_>>()}))),
                (Err(e), true) => ctx.viol("consistent-history-refused", "", d("part3 refused an all-consistent history", json!({"r1_fill": r1_digits, "err": format!("{e:?}")}))),
                (Ok((kp, pkp)), true) => {
                    // internal consistency against the commitments this participant was given
                    let mut sum_key = runs[0].r1_pkgs[&me].commitment().coefficients()[0].value();
                    let mut s = eval_poly::<C>(&runs[0].coeffs[&me], id_sc::<C>(&me));
                    for (j, dgt) in r1_digits.iter().enumerate() {
                        sum_key = sum_key + runs[*dgt].r1_pkgs[&others[j]].commitment().coefficients()[0].value();
                        s = s + eval_poly::<C>(&runs[*dgt].coeffs[&others[j]], id_sc::<C>(&me));
                    }
                    let (wk, ws) = C::indep_post_dkg(sum_key, s);
                    let gs = g::<C>() * kp.signing_share().to_scalar();
                    if kp.signing_share().to_scalar() != ws || pkp.verifying_key().to_element() != wk || kp.verifying_key() != pkp.verifying_key()
                        || kp.verifying_share().to_element() != gs || pkp.verifying_shares().get(&me).map(|v| v.to_element()) != Some(gs)
                        || *kp.min_signers() != t || pkp.min_signers() != Some(t) || pkp.verifying_shares().len() != n as usize
                    {
                        ctx.viol("accepted-history-inconsistent-material", "", d("key material inconsistent with the filed commitments", json!({"r1_fill": r1_digits})));
                    }
                    ctx.count("accepted_histories");
                    ctx.class(format!("n={n}/t={t}/recv{ridx}/accepted/r1={:?}", r1_digits));
                }
                (Err(e), false) => {
                    ctx.count(&format!("refused/{}", err_name(e)));
                }
            }
            // odometer
            let mut k = 0;
            while k < m {
                r2_digits[k] += 1;
                if r2_digits[k] < r2_opts[k].len() {
                    break;
                }
                r2_digits[k] = 0;
                k += 1;
            }
            if k == m {
                break;
            }
        }
        ctx.class(format!("n={n}/t={t}/tB={tb}/recv{ridx}/r1={:?}", r1_digits));
        let mut k = 0;
        while k < m {
            r1_digits[k] += 1;
            if r1_digits[k] < 3 {
                break;
            }
            r1_digits[k] = 0;
            k += 1;
        }
        if k == m {
            break;
        }
    }
    if ctx.samples.is_empty() {
        ctx.sample(json!({"n": n, "t": t, "ids": kind, "receiver": id_hex::<C>(&me),
            "explored": format!("3^{m} round-one fillings x {}^{m} round-two fillings, every part2/part3 outcome compared with the acceptance model", r2_opts[0].len())}));
    }
}

/// all 2^n vectors "participant j contributes from run v_j": everyone completes, same package, can sign
fn common_sets<C: Suite>(ctx: &mut Ctx, n: u16, t: u16, kind: &str, ids: &[Identifier<C>]) {
    let Some(runs) = two_runs::<C>(ctx, n, t, t, ids, kind) else { return };
    let mut sorted = ids.to_vec();
    sort_ids_numeric::<C>(&mut sorted);
    let mut rng = ctx.rng("sign");
    let mut p = ctx.pick("subsets");
    for v in 0u32..(1 << n) {
        let run_of = |j: usize| ((v >> j) & 1) as usize;
        let mut kps = BTreeMap::new();
        let mut pkps = BTreeMap::new();
        let mut failed = false;
        for (i, me) in sorted.iter().enumerate() {
            let mut r1 = BTreeMap::new();
            let mut r2 = BTreeMap::new();
            for (j, o) in sorted.iter().enumerate() {
                if j != i {
                    r1.insert(*o, runs[run_of(j)].r1_pkgs[o].clone());
                    r2.insert(*o, runs[run_of(j)].r2_pkgs[o][me].clone());
                }
            }
            let sec1 = runs[run_of(i)].r1_secret[me].clone();
            let r = C::api_dkg_part2(sec1, &r1).and_then(|(s2, _)| C::api_dkg_part3(&s2, &r1, &r2));
            match r {
                Ok((kp, pkp)) => {
                    kps.insert(*me, kp);
                    pkps.insert(*me, pkp);
                }
                Err(e) => {
                    ctx.viol("consistent-history-refused", "common-set", json!({"n": n, "t": t, "vector": v, "participant": id_hex::<C>(me), "err": format!("{e:?}")}));
                    failed = true;
                }
            }
        }
        if failed {
            continue;
        }
        // synthetic view of "the run that happened"
        let mut r1_pkgs = BTreeMap::new();
        let mut coeffs = BTreeMap::new();
        for (j, o) in sorted.iter().enumerate() {
            r1_pkgs.insert(*o, runs[run_of(j)].r1_pkgs[o].clone());
            coeffs.insert(*o, runs[run_of(j)].coeffs[o].clone());
        }
        let synth = DkgRun { r1_secret: BTreeMap::new(), r1_pkgs, r2_secret: BTreeMap::new(), r2_pkgs: BTreeMap::new(), coeffs };
        let grp = Grp { n, t, ids: sorted.clone(), kps, pkp: pkps[&sorted[0]].clone(), shares: BTreeMap::new(), secret: None, source: "dkg-mixed-runs" };
        judge_dkg(ctx, &grp, &synth, &pkps, "common-set");
        let sub = p.subset(n as usize, t as usize);
        let signers = pick_ids(&sorted, &sub);
        let msg = p.bytes(20);
        match sign_session(&grp, &signers, &msg, &mut rng) {
            Ok(sess) => {
                judge_session(ctx, "common-set", &grp, &sess, &msg, false);
            }
            Err((id, e)) => ctx.viol("cannot-sign-together", "", json!({"n": n, "t": t, "vector": v, "signer": id_hex::<C>(&id), "err": format!("{e:?}")})),
        }
        ctx.count("common_set_vectors");
        ctx.class(format!("n={n}/t={t}/common-set/B={}", v.count_ones()));
    }
}
