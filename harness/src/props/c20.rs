//! C20 — secret material is wiped on drop and on request and never shown in debug output.
//! Runs only inside the `zprobe` binary (instrumented global allocator), in dev, release and verif builds.

use std::alloc::Layout;
use std::collections::BTreeMap;

use frost_core::keys::dkg::{round1 as d1, round2 as d2};
use frost_core::keys::{KeyPackage, SecretShare, SigningShare};
use frost_core::round1::{Nonce, SigningNonces};
use frost_core::{Identifier, SigningKey};
use serde_json::json;
use zeroize::Zeroize;

use crate::alg::*;
use crate::alloc_mon as am;
use crate::gen_::identifiers;
use crate::proto::*;
use crate::{Ctx, Suite};

pub trait SecretBearing<C: Suite>: Clone {
    const NAME: &'static str;
    /// has a destructor that is supposed to wipe
    const WIPES_ON_DROP: bool;
    fn secrets(&self) -> Vec<Sc<C>>;
    /// explicit zeroization where the type offers it
    fn wipe(&mut self) -> bool;
    fn debug(&self) -> Option<(String, String)>;
}

macro_rules! dbg2 {
    ($s:expr) => {
        Some((format!("{:?}", $s), format!("{:#?}", $s)))
    };
}

impl<C: Suite> SecretBearing<C> for SigningKey<C> {
    const NAME: &'static str = "SigningKey";
    const WIPES_ON_DROP: bool = true;
    fn secrets(&self) -> Vec<Sc<C>> {
        vec![self.clone().to_scalar()]
    }
    fn wipe(&mut self) -> bool {
        false
    }
    fn debug(&self) -> Option<(String, String)> {
        dbg2!(self)
    }
}
impl<C: Suite> SecretBearing<C> for SigningShare<C> {
    const NAME: &'static str = "SigningShare";
    const WIPES_ON_DROP: bool = false; // Copy, no destructor (documented)
    fn secrets(&self) -> Vec<Sc<C>> {
        vec![self.to_scalar()]
    }
    fn wipe(&mut self) -> bool {
        self.zeroize();
        true
    }
    fn debug(&self) -> Option<(String, String)> {
        dbg2!(self)
    }
}
impl<C: Suite> SecretBearing<C> for Nonce<C> {
    const NAME: &'static str = "Nonce";
    const WIPES_ON_DROP: bool = false;
    fn secrets(&self) -> Vec<Sc<C>> {
        vec![self.to_scalar()]
    }
    fn wipe(&mut self) -> bool {
        self.zeroize();
        true
    }
    fn debug(&self) -> Option<(String, String)> {
        None
    }
}
impl<C: Suite> SecretBearing<C> for SecretShare<C> {
    const NAME: &'static str = "SecretShare";
    const WIPES_ON_DROP: bool = true;
    fn secrets(&self) -> Vec<Sc<C>> {
        vec![self.signing_share().to_scalar()]
    }
    fn wipe(&mut self) -> bool {
        self.zeroize();
        true
    }
    fn debug(&self) -> Option<(String, String)> {
        dbg2!(self)
    }
}
impl<C: Suite> SecretBearing<C> for KeyPackage<C> {
    const NAME: &'static str = "KeyPackage";
    const WIPES_ON_DROP: bool = true;
    fn secrets(&self) -> Vec<Sc<C>> {
        vec![self.signing_share().to_scalar()]
    }
    fn wipe(&mut self) -> bool {
        self.zeroize();
        true
    }
    fn debug(&self) -> Option<(String, String)> {
        dbg2!(self)
    }
}
impl<C: Suite> SecretBearing<C> for SigningNonces<C> {
    const NAME: &'static str = "SigningNonces";
    const WIPES_ON_DROP: bool = true;
    fn secrets(&self) -> Vec<Sc<C>> {
        vec![self.hiding().to_scalar(), self.binding().to_scalar()]
    }
    fn wipe(&mut self) -> bool {
        self.zeroize();
        true
    }
    fn debug(&self) -> Option<(String, String)> {
        dbg2!(self)
    }
}
impl<C: Suite> SecretBearing<C> for d1::SecretPackage<C> {
    const NAME: &'static str = "dkg::round1::SecretPackage";
    const WIPES_ON_DROP: bool = true;
    fn secrets(&self) -> Vec<Sc<C>> {
        self.coefficients()
    }
    fn wipe(&mut self) -> bool {
        self.zeroize();
        true
    }
    fn debug(&self) -> Option<(String, String)> {
        dbg2!(self)
    }
}
impl<C: Suite> SecretBearing<C> for d2::SecretPackage<C> {
    const NAME: &'static str = "dkg::round2::SecretPackage";
    const WIPES_ON_DROP: bool = true;
    fn secrets(&self) -> Vec<Sc<C>> {
        vec![self.secret_share()]
    }
    fn wipe(&mut self) -> bool {
        self.zeroize();
        true
    }
    fn debug(&self) -> Option<(String, String)> {
        dbg2!(self)
    }
}
impl<C: Suite> SecretBearing<C> for d2::Package<C> {
    const NAME: &'static str = "dkg::round2::Package";
    const WIPES_ON_DROP: bool = true;
    fn secrets(&self) -> Vec<Sc<C>> {
        vec![self.signing_share().to_scalar()]
    }
    fn wipe(&mut self) -> bool {
        self.zeroize();
        true
    }
    fn debug(&self) -> Option<(String, String)> {
        dbg2!(self)
    }
}

/// in-memory byte image of a scalar
fn image<C: Suite>(s: &Sc<C>) -> Vec<u8> {
    let n = core::mem::size_of::<Sc<C>>();
    let p = s as *const Sc<C> as *const u8;
    (0..n).map(|i| unsafe { core::ptr::read_volatile(p.add(i)) }).collect()
}

/// register canonical encoding and memory image of every secret; returns number of usable patterns
fn register<C: Suite>(secrets: &[Sc<C>]) -> usize {
    am::clear_patterns();
    let mut n = 0;
    for s in secrets.iter().take(8) {
        if *s == zero::<C>() {
            continue;
        }
        let enc = sc_bytes::<C>(s);
        // the encoding without trailing/leading padding zeros (Ed448: 57th byte)
        let core_enc: &[u8] = if C::NAME == "ed448" { &enc[..56] } else { &enc[..] };
        if am::add_pattern(core_enc) {
            n += 1;
        }
        let mut img = image::<C>(s);
        if img != core_enc && am::add_pattern(&img[..img.len().min(64)]) {
            n += 1;
        }
        // the harness's own heap copies are wiped so that they cannot resurface as stale data
        img.zeroize();
        let mut enc = enc;
        enc.zeroize();
    }
    n
}

struct Slot {
    p: *mut u8,
    l: Layout,
}
impl Slot {
    fn new<T>() -> Slot {
        let l = Layout::new::<T>();
        let l = Layout::from_size_align(l.size().max(1), l.align()).unwrap();
        let p = unsafe { std::alloc::alloc_zeroed(l) };
        assert!(!p.is_null());
        Slot { p, l }
    }
    fn scan(&self) -> usize {
        unsafe { am::scan_raw(self.p, self.l.size()) }
    }
}
impl Drop for Slot {
    fn drop(&mut self) {
        unsafe {
            // wipe ourselves so that the harness does not leave secrets around either
            for i in 0..self.l.size() {
                core::ptr::write_volatile(self.p.add(i), 0);
            }
            std::alloc::dealloc(self.p, self.l)
        }
    }
}

struct Leaky<C: Suite>(#[allow(dead_code)] Sc<C>, #[allow(dead_code)] u64);
struct LeakyVec<C: Suite>(#[allow(dead_code)] Vec<Sc<C>>);

fn probe<C: Suite, T: SecretBearing<C>>(ctx: &mut Ctx, vals: &[T]) {
    let profile = ctx.notes.get("profile").and_then(|v| v.as_str()).unwrap_or("?").to_string();
    for v in vals {
        let secrets = v.secrets();
        let d = |what: &str, extra: serde_json::Value| json!({"what": what, "type": T::NAME, "profile": profile, "secret_count": secrets.len(), "extra": extra});
        if secrets.iter().all(|s| *s == zero::<C>()) {
            continue;
        }
        // ---- (c) debug rendering -----------------------------------------------------------
        if let Some((a, b)) = v.debug() {
            let text = format!("{a}\n{b}").to_lowercase();
            for s in &secrets {
                let enc = sc_bytes::<C>(s);
                let mut rev = enc.clone();
                rev.reverse();
                let img = image::<C>(s);
                let own = C::scalar_debug(s).to_lowercase();
                for (what, needle) in [("canonical-hex", hex::encode(&enc)), ("reversed-hex", hex::encode(&rev)), ("memory-image-hex", hex::encode(&img)), ("scalar-debug", own)] {
                    if needle.len() >= 16 && text.contains(&needle) {
                        ctx.viol("debug-shows-secret", &format!("{}/{what}", T::NAME), d("Debug output contains an encoding of a secret scalar", json!({"debug": a.chars().take(400).collect::<String>()})));
                    }
                }
                // long runs of the secret's hex (a truncated or grouped rendering)
                let h = hex::encode(&enc);
                if h.len() >= 32 && (text.contains(&h[..32]) || text.contains(&h[h.len() - 32..])) {
                    ctx.viol("debug-shows-secret", &format!("{}/partial-hex", T::NAME), d("Debug output contains half of a secret's hex encoding", json!({})));
                }
            }
            ctx.count("debug_renderings_checked");
        }
        // ---- (a) explicit zeroization --------------------------------------------------------
        {
            am::reset_tracking();
            am::set_mode(am::TRACK);
            let mut c = v.clone();
            am::set_mode(am::OFF);
            let (tr, tn) = am::tracked();
            let npat = register::<C>(&secrets);
            if c.wipe() {
                let after = c.secrets();
                if after.iter().any(|s| *s != zero::<C>()) {
                    ctx.viol("zeroize-leaves-secret", &format!("{}/getter", T::NAME), d("a secret scalar is non-zero after zeroize()", json!({})));
                }
                // heap blocks the value owns (still allocated: capacity is kept) must not hold a secret any more
                if npat > 0 {
                    am::reset_hits();
                    for &(p, l) in tr.iter().take(tn) {
                        unsafe { am::scan_raw(p as *const u8, l) };
                    }
                    if am::hits() > 0 {
                        ctx.viol("zeroize-leaves-secret", &format!("{}/heap", T::NAME), d("a heap buffer owned by the value still holds a secret after zeroize()", json!({"blocks": tn})));
                    }
                    // and its inline image
                    let sz = core::mem::size_of::<T>();
                    am::reset_hits();
                    unsafe { am::scan_raw(&c as *const T as *const u8, sz) };
                    if am::hits() > 0 {
                        ctx.viol("zeroize-leaves-secret", &format!("{}/inline", T::NAME), d("the value's own storage still holds a secret after zeroize()", json!({})));
                    }
                }
                ctx.count("zeroize_checked");
            }
            am::clear_patterns();
            drop(c);
        }
        if !T::WIPES_ON_DROP {
            ctx.class(format!("{profile}/{}/zeroize+debug", T::NAME));
            continue;
        }
        // ---- (b) drop --------------------------------------------------------------------------
        for placement in ["slot", "box", "vec"] {
            // control first: the same value *forgotten* must still show its secret (else the probe is blind)
            let control_seen = {
                am::reset_tracking();
                am::set_mode(am::TRACK);
                let c = v.clone();
                am::set_mode(am::OFF);
                let (tr, tn) = am::tracked();
                let slot = Slot::new::<T>();
                unsafe { core::ptr::write(slot.p as *mut T, c) };
                let npat = register::<C>(&secrets);
                am::reset_hits();
                slot.scan();
                for &(p, l) in tr.iter().take(tn) {
                    unsafe { am::scan_raw(p as *const u8, l) };
                }
                let seen = am::hits() > 0 && npat > 0;
                am::clear_patterns();
                // now really release it (not part of the measurement)
                unsafe { core::ptr::drop_in_place(slot.p as *mut T) };
                seen
            };
            if !control_seen {
                ctx.count("control_blind");
                continue;
            }
            ctx.count("control_sees_secret");
            // a genuine leak reproduces; stale allocator contents do not: a hit must show in three consecutive attempts
            let mut attempts = 0;
            let mut inline_hits = 0usize;
            let mut heap_hits = 0usize;
            let mut tr = [(0usize, 0usize); 512];
            let mut tn = 0usize;
            loop {
                attempts += 1;
            am::reset_tracking();
            am::set_mode(am::TRACK);
            let c = v.clone();
            am::set_mode(am::OFF);
            let (tr_, tn_) = am::tracked();
            tr = tr_;
            tn = tn_;
            let npat = register::<C>(&secrets);
            if npat == 0 {
                break;
            }
            am::reset_hits();
            inline_hits = 0;
            match placement {
                "slot" => {
                    let slot = Slot::new::<T>();
                    unsafe { core::ptr::write(slot.p as *mut T, c) };
                    am::set_mode(am::ARMED);
                    unsafe { core::ptr::drop_in_place(slot.p as *mut T) };
                    am::set_mode(am::OFF);
                    let before = am::hits();
                    slot.scan();
                    inline_hits = am::hits() - before;
                }
                "box" => {
                    // storage is zeroed before the value moves in, so that stale heap contents (copies the
                    // harness itself made earlier) cannot be mistaken for the value's own remains
                    am::set_mode(am::TRACK);
                    let mut b: Box<core::mem::MaybeUninit<T>> = Box::new_uninit();
                    am::set_mode(am::OFF);
                    unsafe { core::ptr::write_bytes(b.as_mut_ptr() as *mut u8, 0, core::mem::size_of::<T>()) };
                    b.write(c);
                    let b: Box<T> = unsafe { b.assume_init() };
                    am::set_mode(am::ARMED);
                    drop(b);
                    am::set_mode(am::OFF);
                }
                _ => {
                    am::set_mode(am::TRACK);
                    let mut vv: Vec<T> = Vec::with_capacity(3);
                    am::set_mode(am::OFF);
                    unsafe { core::ptr::write_bytes(vv.as_mut_ptr() as *mut u8, 0, 3 * core::mem::size_of::<T>()) };
                    vv.push(c);
                    am::set_mode(am::ARMED);
                    drop(vv);
                    am::set_mode(am::OFF);
                }
            }
            heap_hits = am::hits() - inline_hits;
                if (inline_hits == 0 && heap_hits == 0) || attempts >= 3 {
                    break;
                }
                ctx.count("hit_retries");
            }
            if attempts == 0 {
                continue;
            }
            if inline_hits > 0 {
                ctx.viol("drop-leaves-secret", &format!("{}/inline/{placement}", T::NAME), d("the storage the value occupied still holds a secret scalar after drop", json!({"pattern": am::hit_info().0})));
            }
            if heap_hits > 0 {
                ctx.viol("drop-leaves-secret", &format!("{}/heap/{placement}", T::NAME), d("a heap block released while dropping the value still held a secret scalar", json!({"block_size": am::hit_info().1})));
            }
            // conservation: every block the clone owned must have reached dealloc (and was scanned there)
            let (fr, fnn) = am::freed();
            let freed: BTreeMap<usize, usize> = fr.iter().take(fnn).copied().collect();
            let missing = tr.iter().take(tn).filter(|(p, _)| !freed.contains_key(p)).count();
            if missing > 0 {
                ctx.count("conservation_missing_blocks");
            }
            ctx.add("owned_blocks_scanned_at_dealloc", (tn - missing) as u64);
            ctx.count("drops_checked");
            am::clear_patterns();
            ctx.class(format!("{profile}/{}/{placement}", T::NAME));
        }
    }
}

/// Values that a library function takes *by value* are dropped inside the library. The heap blocks such a value owned
/// when it was handed over are followed individually (other blocks freed meanwhile — temporaries — are not judged):
/// the first time each of them is freed it must not hold a secret any more. Covers the success path and early error
/// returns of `dkg::part2` and `refresh::refresh_dkg_part2`, which consume the round-one secret package.
fn consumed<C: Suite>(ctx: &mut Ctx, run: &DkgRun<C>, ids: &[Identifier<C>], n: u16, t: u16, rng: &mut crate::rng::TraceRng) {
    use frost_core::keys::{dkg, refresh};
    let profile = ctx.notes.get("profile").and_then(|v| v.as_str()).unwrap_or("?").to_string();
    let me = ids[0];
    let mut full = run.r1_pkgs.clone();
    full.remove(&me);
    let mut few = full.clone();
    let k0 = *few.keys().next().unwrap();
    few.remove(&k0);
    let mut own = full.clone();
    own.insert(me, run.r1_pkgs[&me].clone());
    let refresh_sec = C::api_refresh_dkg_part1(me, n, t, &mut *rng).ok().map(|x| x.0);
    let mut refresh_inbox = BTreeMap::new();
    for id in ids.iter().filter(|i| **i != me) {
        if let Ok((_, pk)) = C::api_refresh_dkg_part1(*id, n, t, &mut *rng) {
            refresh_inbox.insert(*id, pk);
        }
    }
    let cases: Vec<(&str, &str)> = vec![("dkg::part2", "ok"), ("dkg::part2", "too-few-packages"), ("dkg::part2", "own-identifier-included"), ("refresh_dkg_part2", "ok"), ("refresh_dkg_part2", "too-few-packages")];
    for (func, variant) in cases {
        let src: &d1::SecretPackage<C> = if func == "dkg::part2" { &run.r1_secret[&me] } else { match &refresh_sec { Some(s) => s, None => continue } };
        let secrets = src.secrets();
        am::reset_tracking();
        am::set_mode(am::TRACK);
        let c = src.clone();
        am::set_mode(am::OFF);
        let (tr, tn) = am::tracked();
        if register::<C>(&secrets) == 0 {
            continue;
        }
        am::reset_hits();
        am::set_mode(am::ARMED);
        let r = match (func, variant) {
            ("dkg::part2", "ok") => C::api_dkg_part2(c, &full).map(|_| ()),
            ("dkg::part2", "too-few-packages") => C::api_dkg_part2(c, &few).map(|_| ()),
            ("dkg::part2", _) => C::api_dkg_part2(c, &own).map(|_| ()),
            (_, "ok") => C::api_refresh_dkg_part2(c, &refresh_inbox).map(|_| ()),
            _ => C::api_refresh_dkg_part2(c, &BTreeMap::new()).map(|_| ()),
        };
        am::set_mode(am::OFF);
        let mut missing = 0;
        for &(p, l) in tr.iter().take(tn) {
            match am::first_free_of(p) {
                Some(true) => ctx.viol("consumed-value-leaves-secret", &format!("{func}/{variant}"), json!({"type": "dkg::round1::SecretPackage", "profile": profile, "function": func, "path": variant,
                    "returned_ok": r.is_ok(), "block_size": l, "what": "a heap block the secret package owned when it was handed to the library was freed still holding a coefficient"})),
                Some(false) => ctx.count("consumed_owned_blocks_clean"),
                None => missing += 1,
            }
        }
        if missing > 0 {
            ctx.count("conservation_missing_blocks");
        }
        am::clear_patterns();
        ctx.count("consumptions_checked");
        ctx.class(format!("{profile}/consumed/{func}/{variant}"));
    }
}

pub fn run<C: Suite>(ctx: &mut Ctx) {
    let profile = std::env::var("FV_PROFILE_NAME").unwrap_or("unknown".to_string());
    ctx.note("profile", json!(profile));
    // unoptimised builds are 10-150x slower: fewer value sets there, same types and placements
    let reps = if profile == "dev" { ctx.scale(2, 16) } else { ctx.scale(12, 400) };
    // controls of the monitor itself
    if ctx.item("controls") {
        let s = sc_from_be_bytes_mod::<C>(&ctx.pick("ctl").bytes(64));
        // a type without wiping must be reported (inline)
        register::<C>(&[s]);
        let slot = Slot::new::<Leaky<C>>();
        unsafe { core::ptr::write(slot.p as *mut Leaky<C>, Leaky::<C>(s, 7)) };
        unsafe { core::ptr::drop_in_place(slot.p as *mut Leaky<C>) };
        am::reset_hits();
        slot.scan();
        if am::hits() > 0 {
            ctx.count("control_leaky_inline_reported");
        }
        drop(slot);
        // and on the heap, at dealloc
        am::reset_hits();
        let lv = LeakyVec::<C>(vec![s, s + one::<C>()]);
        am::set_mode(am::ARMED);
        drop(lv);
        am::set_mode(am::OFF);
        if am::hits() > 0 {
            ctx.count("control_leaky_heap_reported");
        }
        // per-block attribution: a consumer that takes the vector out of the value and frees it unwiped
        fn eat<C: Suite>(v: LeakyVec<C>) {
            let inner = v.0;
            let copy = inner.clone(); // an unrelated temporary holding the same bytes
            drop(copy);
            drop(inner);
        }
        am::reset_tracking();
        am::set_mode(am::TRACK);
        let lv = LeakyVec::<C>(vec![s, s + one::<C>(), s]);
        am::set_mode(am::OFF);
        let (tr, tn) = am::tracked();
        am::set_mode(am::ARMED);
        eat::<C>(lv);
        am::set_mode(am::OFF);
        if tn >= 1 && am::first_free_of(tr[0].0) == Some(true) {
            ctx.count("control_consumed_block_reported");
        }
        am::clear_patterns();
    }
    for rep in 0..reps {
        if !ctx.item(&format!("values rep{rep}")) {
            continue;
        }
        // no ctx.guard here on purpose: catch_unwind would be fine, but keep allocation patterns simple
        let mut rng = ctx.rng("keys");
        let mut p = ctx.pick("choices");
        let (n, t) = [(3u16, 2u16), (4, 3), (5, 4), (3, 3)][rep % 4];
        let kind = ["default", "derived", "sparse-u16"][rep % 3];
        let ids: Vec<Identifier<C>> = identifiers::<C>(kind, n as usize, &mut p);
        let Ok(grp) = dealer_group::<C>(n, t, if kind == "default" { None } else { Some(&ids[..]) }, None, &mut rng) else { continue };
        let me = grp.ids[0];
        let (nonces, _) = commit_all(&grp, &grp.ids[..t as usize], &mut rng);
        let Ok(run) = dkg_rounds::<C>(n, t, &ids, &mut rng) else { continue };
        let id0 = ids[0];
        let sk = SigningKey::<C>::new(&mut rng);
        probe::<C, _>(ctx, &[sk]);
        probe::<C, _>(ctx, &[*grp.kps[&me].signing_share()]);
        probe::<C, _>(ctx, &[*nonces[&me].hiding()]);
        probe::<C, _>(ctx, &[grp.shares[&me].clone()]);
        probe::<C, _>(ctx, &[grp.kps[&me].clone()]);
        probe::<C, _>(ctx, &[nonces[&me].clone()]);
        probe::<C, _>(ctx, &[run.r1_secret[&id0].clone()]);
        probe::<C, _>(ctx, &[run.r2_secret[&id0].clone()]);
        probe::<C, _>(ctx, &[run.r2_pkgs[&id0].values().next().unwrap().clone()]);
        consumed::<C>(ctx, &run, &ids, n, t, &mut rng);
        ctx.count("value_sets");
    }
    let (b, by) = am::scanned();
    ctx.note("scanned", json!({"blocks": b, "bytes": by}));
    if ctx.samples.is_empty() {
        ctx.sample(json!({"profile": profile, "types": ["SigningKey", "SigningShare", "Nonce", "SecretShare", "KeyPackage", "SigningNonces", "dkg::round1::SecretPackage", "dkg::round2::SecretPackage", "dkg::round2::Package"],
            "per_value": "debug rendering searched for canonical/reversed/memory-image hex and the scalar's own Debug; zeroize() then getters, owned heap blocks and inline image scanned; dropped in a harness-owned slot, a Box and a Vec with the allocator armed; forget-control must still show the secret"}));
    }
}
