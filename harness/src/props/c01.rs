//! C01 — any >= t honest signers produce a signature that verifies as a plain one.

use frost_core::{CheaterDetection, Signature, VerifyingKey};
use serde_json::json;

use crate::alg::*;
use crate::gen_::*;
use crate::proto::*;
use crate::suite::indep_verify;
use crate::{Ctx, Suite};

/// Every verdict the property names on one finished honest session. Shared with C07/C10/C11/C17.
/// Returns the signature bytes when aggregation succeeded.
pub fn judge_session<C: Suite>(
    ctx: &mut Ctx,
    tag: &str,
    grp: &Grp<C>,
    sess: &Session<C>,
    msg: &[u8],
    log_python: bool,
) -> Option<Vec<u8>> {
    let vk = *grp.pkp.verifying_key();
    let vkb = vk.serialize().expect("vk serialize");
    let detail = |what: &str| {
        json!({"what": what, "tag": tag, "n": grp.n, "t": grp.t, "source": grp.source,
               "signers": sess.signers.iter().map(id_hex::<C>).collect::<Vec<_>>(),
               "vk": hex::encode(&vkb), "msg": hex::encode(msg)})
    };
    // every individual share must pass share verification
    for id in &sess.signers {
        let vs = match grp.pkp.verifying_shares().get(id) {
            Some(v) => v,
            None => {
                ctx.viol("honest-share-rejected", "missing-verifying-share", detail("pkp lacks signer"));
                return None;
            }
        };
        if let Err(e) = frost_core::verify_signature_share(*id, vs, &sess.shares[id], &sess.pkg, &vk) {
            let mut d = detail("verify_signature_share failed for honest signer");
            d["signer"] = json!(id_hex::<C>(id));
            d["err"] = json!(format!("{e:?}"));
            ctx.viol("honest-share-rejected", "", d);
        }
    }
    // aggregation must succeed, in the default and in the all-cheaters mode, with equal results
    let sig = match C::api_aggregate(&sess.pkg, &sess.shares, &grp.pkp) {
        Ok(s) => s,
        Err(e) => {
            let mut d = detail("aggregate failed on honest session");
            d["err"] = json!(format!("{e:?}"));
            ctx.viol("honest-aggregate-failed", "", d);
            return None;
        }
    };
    let sigb = match sig.serialize() {
        Ok(b) => b,
        Err(e) => {
            let mut d = detail("signature does not serialize");
            d["err"] = json!(format!("{e:?}"));
            ctx.viol("honest-aggregate-failed", "serialize", d);
            return None;
        }
    };
    for (mode, name) in [(CheaterDetection::AllCheaters, "all"), (CheaterDetection::Disabled, "disabled")] {
        match frost_core::aggregate_custom(&sess.pkg, &sess.shares, &grp.pkp, mode) {
            Ok(s2) => {
                if s2.serialize().ok().as_deref() != Some(&sigb[..]) {
                    ctx.viol("honest-aggregate-failed", "modes-differ", detail(name));
                }
            }
            Err(e) => {
                let mut d = detail("aggregate_custom failed on honest session");
                d["mode"] = json!(name);
                d["err"] = json!(format!("{e:?}"));
                ctx.viol("honest-aggregate-failed", name, d);
            }
        }
    }
    let mut d = detail("signature rejected");
    d["sig"] = json!(hex::encode(&sigb));
    // library verification of the serialized-then-deserialized signature and key
    match (Signature::<C>::deserialize(&sigb), VerifyingKey::<C>::deserialize(&vkb)) {
        (Ok(s2), Ok(vk2)) => {
            if vk2.verify(msg, &s2).is_err() {
                ctx.viol("signature-rejected", "library-verify", d.clone());
            }
        }
        _ => ctx.viol("signature-rejected", "does-not-decode", d.clone()),
    }
    // independent in-harness verifier (own challenge hash and reduction)
    if !indep_verify::<C>(&vkb, msg, &sigb) {
        ctx.viol("signature-rejected", "independent-verifier", d.clone());
    }
    // external implementations: ed25519-dalek verify_strict, libsecp256k1 verify_schnorr
    if let Some(ok) = C::ext_verify(&vkb, msg, &sigb) {
        ctx.count("ext_verifier_judged");
        if !ok {
            ctx.viol("signature-rejected", "external-verifier", d.clone());
        }
    }
    ctx.count("sessions_judged");
    if log_python {
        ctx.event(json!({"k": "sig", "vk": hex::encode(&vkb), "msg": hex::encode(msg), "sig": hex::encode(&sigb),
                         "item": ctx.cur_item, "tag": tag}));
        ctx.count("python_samples");
    }
    Some(sigb)
}

fn size_class(k: usize, t: usize, n: usize) -> &'static str {
    if k == t && k == n {
        "S=t=n"
    } else if k == t {
        "S=t"
    } else if k == n {
        "S=n"
    } else {
        "t<S<n"
    }
}

pub fn run<C: Suite>(ctx: &mut Ctx) {
    let max_n: u16 = ctx.scale(6, 12);
    let slow = C::NAME == "ed448";
    let sub_cap: usize = match (ctx.quick(), slow) {
        (true, true) => 2,
        (true, false) => 8,
        (false, true) => 6,
        (false, false) => 24,
    };
    let py_per_item: usize = ctx.scale(2, 4);
    let mut msg_rot = 0usize;
    for (n, t) in shapes(max_n) {
        for kind in ID_KINDS {
            for source in ["dealer", "dkg", "split-edge"] {
                if source == "dkg" && (n > ctx.scale(5, 9) || (slow && n > ctx.scale(4, 6))) {
                    continue;
                }
                if source == "split-edge" && kind != "default" && kind != "big-scalar" {
                    continue;
                }
                msg_rot += 1;
                let desc = format!("n={n} t={t} ids={kind} keys={source}");
                if !ctx.item(&desc) {
                    continue;
                }
                ctx.guard(|ctx| one_group::<C>(ctx, n, t, kind, source, sub_cap, py_per_item, msg_rot));
            }
        }
    }
    // large shapes
    let mut large: Vec<(u16, u16, usize)> = vec![];
    if ctx.quick() {
        large.push((40, 2, 3));
        if !slow {
            large.push((20, 15, 17));
            large.push((130, 2, 130)); // more than 127 map entries: multi-byte length prefixes
        }
    } else {
        large.extend([(257, 2, 3), (40, 30, 33), (64, 33, 64)]);
        if !slow {
            large.extend([(1000, 2, 2), (300, 150, 151)]);
        }
        if C::NAME == "ed25519" || C::NAME == "secp256k1" {
            large.push((65535, 2, 2));
        }
    }
    for (n, t, k) in large {
        if !ctx.item(&format!("large n={n} t={t} |S|={k}")) {
            continue;
        }
        ctx.guard(|ctx| {
            let mut rng = ctx.rng("large");
            let grp = match dealer_group::<C>(n, t, None, None, &mut rng) {
                Ok(g) => g,
                Err(e) => return ctx.viol("honest-keygen-failed", "large", json!({"n": n, "t": t, "err": format!("{e:?}")})),
            };
            let mut p = ctx.pick("large");
            // signer sets: the top k identifiers, and a random k-set containing the largest
            let top: Vec<usize> = (n as usize - k..n as usize).collect();
            let mut rnd = p.subset(n as usize, k);
            rnd[k - 1] = n as usize - 1;
            rnd.sort();
            rnd.dedup();
            for (si, sidx) in [top, rnd].iter().enumerate() {
                if sidx.len() < t as usize {
                    continue;
                }
                let signers = pick_ids(&grp.ids, sidx);
                let msg = p.bytes(37);
                match sign_session(&grp, &signers, &msg, &mut rng) {
                    Ok(sess) => {
                        judge_session(ctx, "large", &grp, &sess, &msg, si == 0);
                        ctx.class(format!("large/n={n}/t={t}/S={}", sidx.len()));
                    }
                    Err((id, e)) => ctx.viol("honest-sign-failed", "large", json!({"n": n, "t": t, "signer": id_hex::<C>(&id), "err": format!("{e:?}")})),
                }
            }
        });
    }
}

fn one_group<C: Suite>(ctx: &mut Ctx, n: u16, t: u16, kind: &str, source: &str, sub_cap: usize, py_per_item: usize, msg_rot: usize) {
    let mut rng = ctx.rng("keys");
    let mut p = ctx.pick("choices");
    let ids = identifiers::<C>(kind, n as usize, &mut p);
    let idl = if kind == "default" { None } else { Some(&ids[..]) };
    let grp = match source {
        "dealer" => dealer_group::<C>(n, t, idl, None, &mut rng),
        "split-edge" => {
            // keys 1 and order-1
            let k = if p.coin() { one::<C>() } else { neg::<C>(one::<C>()) };
            dealer_group::<C>(n, t, idl, Some(k), &mut rng)
        }
        _ => dkg_group::<C>(n, t, &ids, &mut rng).map(|x| x.0),
    };
    let grp = match grp {
        Ok(g) => g,
        Err(e) => {
            return ctx.viol("honest-keygen-failed", source, json!({"n": n, "t": t, "ids": kind, "err": format!("{e:?}")}));
        }
    };
    let msgs = messages(&mut p);
    let mut logged = 0usize;
    let mut sidx = 0usize;
    for k in t as usize..=n as usize {
        for sub in subsets(n as usize, k, sub_cap, &mut p) {
            sidx += 1;
            let (mname, msg) = &msgs[(msg_rot + sidx) % msgs.len()];
            if *mname == "64KiB" && ctx.quick() && sidx % 4 != 0 {
                continue;
            }
            let mut signers = pick_ids(&grp.ids, &sub);
            p.shuffle(&mut signers); // commitment insertion order must not matter
            match sign_session(&grp, &signers, msg, &mut rng) {
                Ok(sess) => {
                    let log_py = logged < py_per_item;
                    if judge_session(ctx, "c01", &grp, &sess, msg, log_py).is_some() && log_py {
                        logged += 1;
                    }
                    ctx.class(format!("n={n}/t={t}/{kind}/{source}/{}/{mname}", size_class(k, t as usize, n as usize)));
                    let prefix = sub.iter().enumerate().all(|(i, v)| i == *v);
                    ctx.count(if prefix { "signer_set_prefix" } else { "signer_set_non_prefix" });
                    if ctx.samples.is_empty() {
                        ctx.sample(json!({"n": n, "t": t, "ids": kind, "keys": source,
                            "signers": signers.iter().map(id_hex::<C>).collect::<Vec<_>>(), "msg_class": mname,
                            "outcome": "aggregate ok; all shares verify; library, independent and external verifiers accept"}));
                    }
                }
                Err((id, e)) => {
                    ctx.viol("honest-sign-failed", "", json!({"n": n, "t": t, "ids": kind, "keys": source,
                        "signer": id_hex::<C>(&id), "err": format!("{e:?}")}));
                }
            }
        }
    }
}
