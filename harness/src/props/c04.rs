//! C04 — aggregation never releases an invalid signature and blames exactly the cheaters.

use std::collections::BTreeMap;

use frost_core::keys::VerifyingShare;
use frost_core::round2::SignatureShare;
use frost_core::{CheaterDetection, Error, Identifier, Signature, VerifyingKey};
use frost_rerandomized::RandomizedParams;
use serde_json::json;

use crate::alg::*;
use crate::gen_::*;
use crate::proto::*;
use crate::suite::indep_verify;
use crate::{Ctx, Suite};

pub fn share_from<C: Suite>(z: Sc<C>) -> SignatureShare<C> {
    SignatureShare::<C>::deserialize(&sc_bytes::<C>(&z)).expect("scalar re-decodes")
}
pub fn share_sc<C: Suite>(s: &SignatureShare<C>) -> Sc<C> {
    s.share().0
}

/// One signing session seen by a coordinator, plain or re-randomized.
pub struct Coord<C: Suite> {
    pub sess: Session<C>,
    pub grp: Grp<C>,
    pub params: Option<RandomizedParams<C>>,
    /// key under which released signatures must verify
    pub vk: VerifyingKey<C>,
}

impl<C: Suite> Coord<C> {
    pub fn aggregate(&self, shares: &IdMap<C, SignatureShare<C>>, mode: CheaterDetection) -> Result<Signature<C>, Error<C>> {
        match &self.params {
            None => frost_core::aggregate_custom(&self.sess.pkg, shares, &self.grp.pkp, mode),
            Some(p) => frost_rerandomized::aggregate_custom(&self.sess.pkg, shares, &self.grp.pkp, mode, p),
        }
    }
    pub fn verify_share(&self, id: Identifier<C>, share: &SignatureShare<C>) -> Result<(), Error<C>> {
        let vs = self.grp.pkp.verifying_shares()[&id];
        let vs = match &self.params {
            None => vs,
            Some(p) => VerifyingShare::<C>::new(vs.to_element() + *p.randomizer_element()),
        };
        frost_core::verify_signature_share(id, &vs, share, &self.sess.pkg, &self.vk)
    }
}

/// Shares a signer confused about one of the sign conventions would send. The honest share is z = ±k ± lambda*s*c with
/// k = d + rho*e; flipping the sign of the nonce part gives z-2k or z+2k, flipping the sign of the key part gives 2k-z or
/// -2k-z (one of each pair is the confused share, the other just another wrong value). rho is taken from the library's
/// binding factors under every candidate key - this only *generates* inputs; every variant that differs from z is an
/// altered share and must be treated as one.
pub fn parity_confused<C: Suite>(pkg: &frost_core::SigningPackage<C>, nonces: &frost_core::round1::SigningNonces<C>, id: &Identifier<C>, z: Sc<C>, vks: &[VerifyingKey<C>]) -> Vec<(String, Sc<C>)> {
    let mut out: Vec<(String, Sc<C>)> = vec![];
    for (vi, vk) in vks.iter().enumerate() {
        let Ok(bfl) = frost_core::compute_binding_factor_list(pkg, vk, &[]) else { continue };
        let Some(rho) = bfl.get(id).and_then(|b| sc_decode::<C>(&b.serialize())) else { continue };
        let k = nonces.hiding().to_scalar() + rho * nonces.binding().to_scalar();
        let two_k = k + k;
        for (name, v) in [("z-2k", z - two_k), ("z+2k", z + two_k), ("2k-z", two_k - z), ("-2k-z", neg::<C>(two_k) - z)] {
            if v != z && !out.iter().any(|(_, o)| *o == v) {
                out.push((format!("{name}/key{vi}"), v));
            }
        }
    }
    out
}

/// honest session, plain or through frost-rerandomized
pub fn make_coord<C: Suite>(grp: &Grp<C>, signers: &[Identifier<C>], msg: &[u8], rerand: bool, rng: &mut crate::rng::TraceRng) -> Result<Coord<C>, String> {
    if !rerand {
        let sess = sign_session(grp, signers, msg, rng).map_err(|(i, e)| format!("sign {} {e:?}", id_hex::<C>(&i)))?;
        return Ok(Coord { sess, grp: grp.clone(), params: None, vk: *grp.pkp.verifying_key() });
    }
    let (nonces, comms) = commit_all(grp, signers, rng);
    let pkg = frost_core::SigningPackage::new(comms.clone(), msg);
    let (params, seed) = RandomizedParams::<C>::new_from_commitments(grp.pkp.verifying_key(), &comms, &mut *rng).map_err(|e| format!("{e:?}"))?;
    let mut shares = BTreeMap::new();
    for id in signers {
        let s = frost_rerandomized::sign_with_randomizer_seed(&pkg, &nonces[id], &grp.kps[id], &seed).map_err(|e| format!("rsign {e:?}"))?;
        shares.insert(*id, s);
    }
    let vk = *params.randomized_verifying_key();
    Ok(Coord { sess: Session { signers: signers.to_vec(), nonces, comms, pkg, shares }, grp: grp.clone(), params: Some(params), vk })
}

fn culprit_ints<C: Suite>(e: &Error<C>) -> Vec<Vec<u8>> {
    e.culprits().iter().map(id_int::<C>).collect()
}

/// The C04 oracle for one set of submitted shares. `honest` are the honest shares, `sub` the
/// submitted ones; X' = slots whose submitted share differs from the honest one.
pub fn judge_alteration<C: Suite>(ctx: &mut Ctx, co: &Coord<C>, sub: &IdMap<C, SignatureShare<C>>, kind: &str, msg: &[u8]) {
    let honest = &co.sess.shares;
    let vkb = co.vk.serialize().unwrap();
    let mut xprime: Vec<Identifier<C>> = vec![];
    let mut delta_sum = zero::<C>();
    for (id, s) in sub {
        let dl = share_sc::<C>(s) - share_sc::<C>(&honest[id]);
        if dl != zero::<C>() {
            xprime.push(*id);
            delta_sum = delta_sum + dl;
        }
    }
    sort_ids_numeric::<C>(&mut xprime);
    let xints: Vec<Vec<u8>> = xprime.iter().map(id_int::<C>).collect();
    let cancelling = !xprime.is_empty() && delta_sum == zero::<C>();
    let rer = if co.params.is_some() { "rerand" } else { "plain" };
    let d = |what: &str, extra: serde_json::Value| {
        json!({"what": what, "kind": kind, "via": rer, "n": co.grp.n, "t": co.grp.t,
            "signers": co.sess.signers.iter().map(id_hex::<C>).collect::<Vec<_>>(),
            "altered": xprime.iter().map(id_hex::<C>).collect::<Vec<_>>(), "cancelling": cancelling, "extra": extra})
    };
    // standalone share verification: accepts exactly the unaltered shares
    for (id, s) in sub {
        let ok = co.verify_share(*id, s).is_ok();
        let should = !xprime.contains(id);
        if ok != should {
            ctx.viol("share-verification-wrong", if ok { "accepts-altered" } else { "rejects-honest" }, d("verify_signature_share", json!({"signer": id_hex::<C>(id)})));
        }
        ctx.count("share_verifications");
    }
    for (mode, mname) in [(CheaterDetection::FirstCheater, "first"), (CheaterDetection::AllCheaters, "all"), (CheaterDetection::Disabled, "disabled")] {
        let r = co.aggregate(sub, mode);
        ctx.count("aggregations");
        match &r {
            Ok(sig) => {
                // whatever is released must verify, independently
                let sb = sig.serialize().unwrap_or_default();
                let valid = indep_verify::<C>(&vkb, msg, &sb) && C::ext_verify(&vkb, msg, &sb).unwrap_or(true);
                if !valid {
                    ctx.viol("released-invalid-signature", mname, d("aggregate returned Ok but the signature does not verify", json!({"sig": hex::encode(&sb)})));
                }
                if !xprime.is_empty() && !cancelling {
                    ctx.viol("accepts-altered-shares", mname, d("aggregate returned Ok although shares do not sum to the honest value", json!({})));
                }
                ctx.count(&format!("outcome/{mname}/ok"));
            }
            Err(e) => {
                let cul = culprit_ints::<C>(e);
                let en = err_name(e);
                ctx.count(&format!("outcome/{mname}/{en}"));
                if xprime.is_empty() {
                    ctx.viol("rejects-honest-shares", mname, d("aggregate failed on honest shares", json!({"err": format!("{e:?}")})));
                    continue;
                }
                if cul.iter().any(|c| !xints.contains(c)) {
                    ctx.viol("honest-signer-blamed", mname, d("culprit list names an unaltered signer", json!({"err": format!("{e:?}")})));
                }
                if cancelling {
                    continue; // an error naming only members of X is allowed
                }
                match mname {
                    "first" => {
                        if cul != vec![xints[0].clone()] {
                            ctx.viol("wrong-culprits", "first", d("FirstCheater must name exactly the lowest altered identifier", json!({"err": format!("{e:?}")})));
                        }
                    }
                    "all" => {
                        let mut c2 = cul.clone();
                        c2.sort();
                        if c2 != xints {
                            ctx.viol("wrong-culprits", "all", d("AllCheaters must name exactly the altered set", json!({"err": format!("{e:?}")})));
                        }
                    }
                    _ => {
                        if !cul.is_empty() || !matches!(e, Error::InvalidSignature) {
                            ctx.viol("wrong-culprits", "disabled", d("Disabled must report InvalidSignature and name nobody", json!({"err": format!("{e:?}")})));
                        }
                    }
                }
            }
        }
    }
}

pub fn run<C: Suite>(ctx: &mut Ctx) {
    let slow = C::NAME == "ed448";
    let max_n: u16 = match (ctx.quick(), slow) {
        (true, true) => 4,
        (true, false) => 5,
        (false, true) => 6,
        (false, false) => 8,
    };
    let max_s: usize = if ctx.quick() { 5 } else { 7 };
    let subs_per_size = ctx.scale(1, if slow { 1 } else { 3 });
    for (n, t) in shapes(max_n) {
        for kind in ["default", "sparse-u16", "big-scalar"] {
            if ctx.quick() && kind != "default" && (n + t) % 2 == (kind.len() as u16) % 2 {
                continue;
            }
            for rerand in [false, true] {
                if rerand && kind != "default" {
                    continue;
                }
                if !ctx.item(&format!("n={n} t={t} ids={kind} via={}", if rerand { "rerandomized" } else { "plain" })) {
                    continue;
                }
                ctx.guard(|ctx| item::<C>(ctx, n, t, kind, rerand, max_s, subs_per_size));
            }
        }
    }
}

fn item<C: Suite>(ctx: &mut Ctx, n: u16, t: u16, kind: &str, rerand: bool, max_s: usize, subs_per_size: usize) {
    let mut rng = ctx.rng("keys");
    let mut p = ctx.pick("choices");
    let ids = identifiers::<C>(kind, n as usize, &mut p);
    let idl = if kind == "default" { None } else { Some(&ids[..]) };
    let grp = match dealer_group::<C>(n, t, idl, None, &mut rng) {
        Ok(g) => g,
        Err(e) => return ctx.viol("honest-keygen-failed", "", json!({"err": format!("{e:?}")})),
    };
    let msg = p.bytes(33);
    for k in (t as usize)..=(n as usize).min(max_s) {
        let mut subs = subsets(n as usize, k, 1000, &mut p);
        p.shuffle(&mut subs);
        for sub in subs.into_iter().take(subs_per_size) {
            let signers = pick_ids(&grp.ids, &sub);
            let a = match make_coord::<C>(&grp, &signers, &msg, rerand, &mut rng) {
                Ok(c) => c,
                Err(e) => {
                    ctx.viol("honest-sign-failed", "", json!({"err": e}));
                    continue;
                }
            };
            // concurrent session B of the same signers, same message, fresh nonces
            let b = match make_coord::<C>(&grp, &signers, &msg, rerand, &mut rng) {
                Ok(c) => c,
                Err(e) => {
                    ctx.viol("honest-sign-failed", "", json!({"err": e}));
                    continue;
                }
            };
            // parity of the group commitment (Taproot branch coverage), read from the released signature
            let par = if C::TAPROOT {
                let bfl = frost_core::compute_binding_factor_list(&a.sess.pkg, &a.vk, &[]).ok();
                // for Taproot the binding factors are computed under the even-Y key; use the library's own view via aggregate R
                let _ = bfl;
                match a.aggregate(&a.sess.shares, CheaterDetection::Disabled) {
                    Ok(sig) => format!("R{}", parity_tag::<C>(sig.R())),
                    Err(_) => "R?".into(),
                }
            } else {
                "-".into()
            };
            let honest = a.sess.shares.clone();
            judge_alteration(ctx, &a, &honest, "honest", &msg);
            let order: Vec<Identifier<C>> = signers.clone();
            for mask in nonempty_masks(k) {
                let xs: Vec<usize> = (0..k).filter(|i| mask >> i & 1 == 1).collect();
                for akind in ["plus-one", "negated", "zero", "other-signer", "session-B", "random"] {
                    let mut sub_sh = honest.clone();
                    for &xi in &xs {
                        let id = order[xi];
                        let z = share_sc::<C>(&honest[&id]);
                        let nz = match akind {
                            "plus-one" => z + one::<C>(),
                            "negated" => neg::<C>(z),
                            "zero" => zero::<C>(),
                            "other-signer" => share_sc::<C>(&honest[&order[(xi + 1) % k]]),
                            "session-B" => share_sc::<C>(&b.sess.shares[&id]),
                            _ => sc_from_be_bytes_mod::<C>(&p.bytes(48)),
                        };
                        sub_sh.insert(id, share_from::<C>(nz));
                    }
                    judge_alteration(ctx, &a, &sub_sh, akind, &msg);
                    ctx.count("alterations");
                    ctx.class(format!("S={k}/X={}/{akind}/{}/{par}", xs.len(), if rerand { "rerand" } else { "plain" }));
                }
            }
            // one signer confused about a sign convention (nonce part or key part negated)
            for (xi, id) in order.iter().enumerate() {
                for (vname, v) in parity_confused::<C>(&a.sess.pkg, &a.sess.nonces[id], id, share_sc::<C>(&honest[id]), &[a.vk, *grp.pkp.verifying_key()]) {
                    let mut sub_sh = honest.clone();
                    sub_sh.insert(*id, share_from::<C>(v));
                    judge_alteration(ctx, &a, &sub_sh, "sign-confused", &msg);
                    ctx.count("alterations");
                    ctx.class(format!("S={k}/X=1/sign-confused-{}/{}/{par}", vname.split('/').next().unwrap_or(""), if rerand { "rerand" } else { "plain" }));
                    let _ = xi;
                }
            }
            // cancelling pairs and triples at every position pair / triple
            for i in 0..k {
                for j in 0..k {
                    if i == j {
                        continue;
                    }
                    let dl = sc_from_be_bytes_mod::<C>(&p.bytes(40)) + one::<C>();
                    let mut s2 = honest.clone();
                    s2.insert(order[i], share_from::<C>(share_sc::<C>(&honest[&order[i]]) + dl));
                    s2.insert(order[j], share_from::<C>(share_sc::<C>(&honest[&order[j]]) - dl));
                    judge_alteration(ctx, &a, &s2, "cancelling-pair", &msg);
                    ctx.count("alterations");
                    ctx.class(format!("S={k}/cancelling-pair/{}/{par}", if rerand { "rerand" } else { "plain" }));
                    if k >= 3 && i < j {
                        let l = (0..k).find(|x| *x != i && *x != j).unwrap();
                        let d2 = sc_from_be_bytes_mod::<C>(&p.bytes(40)) + one::<C>();
                        let mut s3 = honest.clone();
                        s3.insert(order[i], share_from::<C>(share_sc::<C>(&honest[&order[i]]) + dl));
                        s3.insert(order[j], share_from::<C>(share_sc::<C>(&honest[&order[j]]) + d2));
                        s3.insert(order[l], share_from::<C>(share_sc::<C>(&honest[&order[l]]) - dl - d2));
                        judge_alteration(ctx, &a, &s3, "cancelling-triple", &msg);
                        ctx.count("alterations");
                        ctx.class(format!("S={k}/cancelling-triple/{}/{par}", if rerand { "rerand" } else { "plain" }));
                    }
                }
            }
            // every share individually valid, the sum not a signature: a set of t-1 holders whose key material claims
            // a lower threshold. Whatever aggregation returns as Ok must verify (it cannot), in every mode.
            if k == t as usize && t >= 2 && !rerand {
                let few: Vec<Identifier<C>> = signers.iter().take(t as usize - 1).copied().collect();
                let mut g2 = grp.clone();
                for id in &few {
                    let kp = &grp.kps[id];
                    g2.kps.insert(*id, frost_core::keys::KeyPackage::new(*id, *kp.signing_share(), *kp.verifying_share(), *kp.verifying_key(), few.len() as u16));
                }
                g2.pkp = frost_core::keys::PublicKeyPackage::new(grp.pkp.verifying_shares().clone(), *grp.pkp.verifying_key(), None);
                if let Ok(sess) = sign_session(&g2, &few, &msg, &mut rng) {
                    let vkb = grp.pkp.verifying_key().serialize().unwrap();
                    for (mode, mname) in [(CheaterDetection::FirstCheater, "first"), (CheaterDetection::AllCheaters, "all"), (CheaterDetection::Disabled, "disabled")] {
                        if let Ok(sig) = frost_core::aggregate_custom(&sess.pkg, &sess.shares, &g2.pkp, mode) {
                            let sb = sig.serialize().unwrap_or_default();
                            if !indep_verify::<C>(&vkb, &msg, &sb) {
                                ctx.viol("released-invalid-signature", &format!("valid-shares-invalid-sum/{mname}"), json!({"n": n, "t": t, "holders": few.len(), "sig": hex::encode(&sb)}));
                            }
                        }
                        ctx.count("valid_shares_invalid_sum_cases");
                    }
                    ctx.class(format!("S={}/valid-shares-invalid-sum", few.len()));
                }
            }
            if ctx.samples.is_empty() {
                ctx.sample(json!({"n": n, "t": t, "ids": kind, "via": if rerand {"rerandomized"} else {"plain"},
                    "signers": signers.iter().map(id_hex::<C>).collect::<Vec<_>>(),
                    "explored": format!("every non-empty cheater subset of the {k} signers x 6 alteration kinds x 3 detection modes + standalone share verification; cancelling pairs/triples at every position")}));
            }
        }
    }
}
