//! C02 — every intermediate and final value is bit-exact with RFC 9591 (BIP-340 for Taproot).
//! The harness records the library's values; oracle/check_c02 (Python) re-derives every one of them.

use std::collections::BTreeMap;

use frost_core::{Ciphersuite, Identifier, Signature, SigningKey, SigningPackage, VerifyingKey};
use serde_json::{Value, json};

use crate::alg::*;
use crate::gen_::*;
use crate::proto::*;
use crate::rng::TraceRng;
use crate::{Ctx, Suite};

pub fn run<C: Suite>(ctx: &mut Ctx) {
    let slow = C::NAME == "ed448";
    // (1) identifier encodings: all 65 535 u16 values against a plain integer-to-bytes encoder
    if ctx.item("identifier-encoding-all-u16") {
        ctx.guard(|ctx| {
            for v in 1..=u16::MAX {
                let id = match Identifier::<C>::try_from(v) {
                    Ok(i) => i,
                    Err(_) => {
                        ctx.viol("identifier-encoding", "refused", json!({"value": v}));
                        continue;
                    }
                };
                let mut want = vec![0u8; C::SCALAR_LEN];
                if C::LE {
                    want[0] = (v & 0xff) as u8;
                    want[1] = (v >> 8) as u8;
                } else {
                    want[C::SCALAR_LEN - 1] = (v & 0xff) as u8;
                    want[C::SCALAR_LEN - 2] = (v >> 8) as u8;
                }
                if id.serialize() != want {
                    ctx.viol("identifier-encoding", "value", json!({"value": v, "got": hex::encode(id.serialize()), "want": hex::encode(&want)}));
                }
                ctx.count("identifier_encodings");
            }
            ctx.class("identifier-encoding/all-u16");
            // derived and big identifiers: logged for the reference (HID is re-derived there)
            for s in ["alice@example.org", "", "participant 7", "\u{1F980}"] {
                if let Ok(id) = Identifier::<C>::derive(s.as_bytes()) {
                    ctx.event(json!({"k": "derive-id", "input": hex::encode(s.as_bytes()), "id": id_hex::<C>(&id)}));
                }
            }
        });
    }
    // (2) full sessions over a covering set of classes
    let per_class = ctx.scale(if slow { 1 } else { 3 }, if slow { 3 } else { 10 });
    let shapes_v: Vec<(u16, u16)> = if ctx.quick() {
        vec![(2, 2), (3, 2), (4, 3), (5, 3), (7, 4), (9, 5)]
    } else {
        vec![(2, 2), (3, 2), (3, 3), (4, 2), (4, 3), (5, 3), (6, 4), (7, 4), (8, 5), (9, 5), (10, 7), (12, 9), (12, 2)]
    };
    let mut cls = 0usize;
    for (n, t) in shapes_v {
        for kind in ID_KINDS {
            for source in ["dealer", "dkg", "split-edge"] {
                if source == "dkg" && (n > 5 || (slow && n > 4)) {
                    continue;
                }
                if source == "split-edge" && kind != "default" && kind != "big-scalar" {
                    continue;
                }
                if slow && ctx.quick() && n > 5 {
                    continue;
                }
                for rep in 0..per_class {
                    cls += 1;
                    if !ctx.item(&format!("session n={n} t={t} ids={kind} keys={source} rep={rep}")) {
                        continue;
                    }
                    ctx.guard(|ctx| session::<C>(ctx, n, t, kind, source, cls));
                }
            }
        }
    }
    // (3) single-signer entry point: library-made signatures for the reference verifier ...
    if ctx.item("single-signer-library-signs") {
        ctx.guard(|ctx| {
            let mut rng = ctx.rng("single");
            let mut p = ctx.pick("single");
            let msgs = messages(&mut p);
            for i in 0..ctx.scale(30, 200) {
                let k = match i {
                    0 => SigningKey::<C>::from_scalar(one::<C>()).unwrap(),
                    1 => SigningKey::<C>::from_scalar(neg::<C>(one::<C>())).unwrap(),
                    _ => SigningKey::<C>::new(&mut rng),
                };
                let (mname, msg) = &msgs[i % 14];
                let sig = k.sign(&mut rng, msg);
                let vk = VerifyingKey::<C>::from(&k);
                let (vkb, sb) = (vk.serialize().unwrap(), sig.serialize().unwrap());
                if vk.verify(msg, &sig).is_err() || !crate::suite::indep_verify::<C>(&vkb, msg, &sb) || C::ext_verify(&vkb, msg, &sb) == Some(false) {
                    ctx.viol("single-signer", "library-signature-rejected", json!({"vk": hex::encode(&vkb), "sig": hex::encode(&sb), "msg": hex::encode(msg)}));
                }
                ctx.event(json!({"k": "sig", "vk": hex::encode(&vkb), "msg": hex::encode(msg), "sig": hex::encode(&sb), "item": ctx.cur_item, "tag": "single-signer"}));
                ctx.count("single_signer_signatures");
                ctx.class(format!("single-signer/{mname}"));
            }
        });
    }
    // ... and signatures made by independent signers for the library
    if ctx.item("single-signer-reference-signs") {
        ctx.guard(|ctx| reference_signatures::<C>(ctx));
    }
}

fn session<C: Suite>(ctx: &mut Ctx, n: u16, t: u16, kind: &str, source: &str, cls: usize) {
    let mut rng = ctx.rng("keys");
    let mut p = ctx.pick("choices");
    let ids = identifiers::<C>(kind, n as usize, &mut p);
    let idl = if kind == "default" { None } else { Some(&ids[..]) };
    let grp = match source {
        "dealer" => dealer_group::<C>(n, t, idl, None, &mut rng),
        "split-edge" => dealer_group::<C>(n, t, idl, Some(if p.coin() { one::<C>() } else { neg::<C>(one::<C>()) }), &mut rng),
        _ => dkg_group::<C>(n, t, &ids, &mut rng).map(|x| x.0),
    };
    let Ok(grp) = grp else { return ctx.viol("honest-keygen-failed", "", json!({})) };
    // signer set: |S| class rotates over =t, >t, =n; subset shape random
    let k = match cls % 3 {
        0 => t as usize,
        1 => (t as usize + 1).min(n as usize),
        _ => n as usize,
    };
    let sub = p.subset(n as usize, k);
    let mut signers = pick_ids(&grp.ids, &sub);
    p.shuffle(&mut signers);
    let msgs = messages(&mut p);
    let (mname, msg) = &msgs[cls % 14];
    // round one under per-signer recording sources
    let mut nonces = BTreeMap::new();
    let mut comms = BTreeMap::new();
    let mut signer_log: Vec<Value> = vec![];
    let mut rands: BTreeMap<Identifier<C>, (Vec<u8>, Vec<u8>)> = BTreeMap::new();
    for id in &signers {
        let mut r = TraceRng::from_parts(&[b"c02", &ctx.seed.to_le_bytes(), &ctx.cur_item.to_le_bytes(), &id.serialize()]);
        // every third class takes its nonces from a pre-processed batch (the last pair of k = 2 or 3) instead of commit()
        let kpre = if cls % 3 == 0 { 1 } else { 1 + cls % 3 };
        let (nn, cc) = if kpre == 1 {
            C::api_commit(grp.kps[id].signing_share(), &mut r)
        } else {
            let (mut ns, mut cs) = frost_core::round1::preprocess::<C, _>(kpre as u8, grp.kps[id].signing_share(), &mut r);
            match (ns.pop(), cs.pop()) {
                (Some(a), Some(b)) => (a, b),
                _ => return ctx.viol("bit-exact", "preprocess-count", json!({"k": kpre})),
            }
        };
        if r.stream.len() != 64 * kpre {
            ctx.viol("bit-exact", "randomness-consumed", json!({"bytes": r.stream.len(), "pairs": kpre}));
            return;
        }
        let off = 64 * (kpre - 1);
        ctx.count(if kpre == 1 { "nonces_from_commit" } else { "nonces_from_preprocess" });
        rands.insert(*id, (r.stream[off..off + 32].to_vec(), r.stream[off + 32..off + 64].to_vec()));
        nonces.insert(*id, nn);
        comms.insert(*id, cc);
    }
    let pkg = SigningPackage::new(comms.clone(), msg);
    let vk = *grp.pkp.verifying_key();
    // the key the signing equations use (Taproot: normalised to even Y, as the ciphersuite's pre-processing does)
    let vk_eff = if C::TAPROOT && parity_tag::<C>(&vk.to_element()) == 1 { VerifyingKey::<C>::new(ident::<C>() - vk.to_element()) } else { vk };
    let enc_list = frost_core::round1::encode_group_commitments(pkg.signing_commitments());
    let preimages = pkg.binding_factor_preimages(&vk_eff, &[]);
    let bfl = frost_core::compute_binding_factor_list(&pkg, &vk_eff, &[]);
    let (Ok(enc_list), Ok(preimages), Ok(bfl)) = (enc_list, preimages, bfl) else { return ctx.viol("bit-exact", "internals-failed", json!({})) };
    let Ok(gc) = frost_core::compute_group_commitment(&pkg, &bfl) else { return ctx.viol("bit-exact", "internals-failed", json!({})) };
    let r_el = gc.clone().to_element();
    let Ok(chal) = <C as Ciphersuite>::challenge(&r_el, &vk_eff, msg) else { return };
    let mut shares = BTreeMap::new();
    for id in &signers {
        let Ok(sh) = C::api_sign(&pkg, &nonces[id], &grp.kps[id]) else { return ctx.viol("honest-sign-failed", "", json!({})) };
        let lam = frost_core::derive_interpolating_value(id, &pkg).map(|l| sc_hex::<C>(&l)).unwrap_or_default();
        signer_log.push(json!({
            "id": id_hex::<C>(id),
            "share": sc_hex::<C>(&grp.kps[id].signing_share().to_scalar()),
            "rand_h": hex::encode(&rands[id].0), "rand_b": hex::encode(&rands[id].1),
            "hiding": sc_hex::<C>(&nonces[id].hiding().to_scalar()), "binding": sc_hex::<C>(&nonces[id].binding().to_scalar()),
            "ch": el_hex::<C>(&comms[id].hiding().value()), "cb": el_hex::<C>(&comms[id].binding().value()),
            "binding_factor": bfl.get(id).map(|b| hex::encode(b.serialize())).unwrap_or_default(),
            "binding_factor_input": preimages.iter().find(|(i, _)| i == id).map(|(_, b)| hex::encode(b)).unwrap_or_default(),
            "lambda": lam,
            "sig_share": hex::encode(sh.serialize()),
        }));
        shares.insert(*id, sh);
    }
    let Ok(sig) = C::api_aggregate(&pkg, &shares, &grp.pkp) else { return ctx.viol("honest-aggregate-failed", "", json!({})) };
    let sigb = Signature::<C>::serialize(&sig).unwrap();
    // the final signature is a function of the shares alone: every cheater-detection strategy returns the same bytes
    for (mode, mname) in [(frost_core::CheaterDetection::Disabled, "disabled"), (frost_core::CheaterDetection::FirstCheater, "first"), (frost_core::CheaterDetection::AllCheaters, "all")] {
        match frost_core::aggregate_custom(&pkg, &shares, &grp.pkp, mode) {
            Ok(s2) if Signature::<C>::serialize(&s2).ok().as_deref() == Some(&sigb[..]) => {}
            Ok(s2) => ctx.viol("bit-exact", &format!("final-signature-depends-on-detection-mode/{mname}"), json!({"aggregate": hex::encode(&sigb), "aggregate_custom": Signature::<C>::serialize(&s2).map(hex::encode).unwrap_or_default()})),
            Err(e) => ctx.viol("bit-exact", &format!("final-signature-depends-on-detection-mode/{mname}"), json!({"aggregate": hex::encode(&sigb), "aggregate_custom_err": format!("{e:?}")})),
        }
        ctx.count("aggregate_mode_comparisons");
    }
    ctx.event(json!({"k": "session", "item": ctx.cur_item, "n": n, "t": t, "ids": kind, "keys": source,
        "vk": el_hex::<C>(&vk.to_element()), "msg": hex::encode(msg),
        "commitment_list": hex::encode(&enc_list),
        "commitment_list_order": pkg.signing_commitments().keys().map(id_hex::<C>).collect::<Vec<_>>(),
        "group_commitment": el_hex::<C>(&r_el), "challenge": sc_hex::<C>(&chal.to_scalar()),
        "signers": signer_log, "sig": hex::encode(&sigb)}));
    ctx.count("sessions_logged");
    let szc = if k == t as usize && k == n as usize { "S=t=n" } else if k == t as usize { "S=t" } else if k == n as usize { "S=n" } else { "t<S<n" };
    let cnt = match k {
        2 => "2",
        3 => "3",
        4 => "4",
        5..=8 => "5-8",
        _ => "9+",
    };
    ctx.class(format!("{kind}/{source}/signers={cnt}/{szc}/{mname}"));
    if ctx.samples.is_empty() {
        ctx.sample(json!({"n": n, "t": t, "ids": kind, "keys": source, "signers": signers.iter().map(id_hex::<C>).collect::<Vec<_>>(), "msg_class": mname, "sig": hex::encode(&sigb),
            "recorded": "per signer: share, 64 random bytes, nonces, commitments, binding-factor input and value, lambda, signature share; commitment list encoding and order, group commitment, challenge, final signature"}));
    }
}

/// signatures made by independent signers (Python reference written from the RFCs / BIP-340 — file
/// produced by the driver before the run — and ed25519-dalek) must be accepted by the library
fn reference_signatures<C: Suite>(ctx: &mut Ctx) {
    let path = ctx.out_dir.join(format!("refsigs.{}.json", C::NAME));
    if let Ok(txt) = std::fs::read_to_string(&path) {
        if let Ok(list) = serde_json::from_str::<Vec<Value>>(&txt) {
            for e in list {
                let (Ok(vkb), Ok(msg), Ok(sb)) = (hex::decode(e["vk"].as_str().unwrap_or("")), hex::decode(e["msg"].as_str().unwrap_or("")), hex::decode(e["sig"].as_str().unwrap_or(""))) else { continue };
                let want = e["valid"].as_bool().unwrap_or(true);
                let signer = e["signer"].as_str().unwrap_or("?").to_string();
                let got = match (VerifyingKey::<C>::deserialize(&vkb), Signature::<C>::deserialize(&sb)) {
                    (Ok(vk), Ok(sig)) => vk.verify(&msg, &sig).is_ok(),
                    _ => false,
                };
                if got != want {
                    ctx.viol("single-signer", if want { "library-rejects-reference-signature" } else { "library-accepts-altered-reference-signature" },
                        json!({"signer": signer, "vk": hex::encode(&vkb), "msg": hex::encode(&msg), "sig": hex::encode(&sb)}));
                }
                ctx.count("reference_signatures_checked");
                ctx.class(format!("reference-signer/{signer}/{}", if want { "valid" } else { "altered" }));
            }
        }
    } else {
        ctx.count("reference_signature_file_missing");
    }
    if C::NAME == "ed25519" {
        use ed25519_dalek::Signer;
        let mut p = ctx.pick("dalek");
        for i in 0..ctx.scale(40, 400) {
            let seed: [u8; 32] = p.bytes(32).try_into().unwrap();
            let sk = ed25519_dalek::SigningKey::from_bytes(&seed);
            let msg = p.bytes(i % 70);
            let sig = sk.sign(&msg);
            let vkb = sk.verifying_key().to_bytes();
            let ok = match (VerifyingKey::<C>::deserialize(&vkb), Signature::<C>::deserialize(&sig.to_bytes())) {
                (Ok(vk), Ok(s)) => vk.verify(&msg, &s).is_ok(),
                _ => false,
            };
            if !ok {
                ctx.viol("single-signer", "library-rejects-ed25519-dalek-signature", json!({"vk": hex::encode(vkb), "msg": hex::encode(&msg), "sig": hex::encode(sig.to_bytes())}));
            }
            ctx.count("reference_signatures_checked");
        }
        ctx.class("reference-signer/ed25519-dalek/valid");
    }
    if C::TAPROOT {
        // libsecp256k1 as a BIP-340 signer
        let secp = secp256k1::Secp256k1::new();
        let mut p = ctx.pick("libsecp");
        for i in 0..ctx.scale(40, 400) {
            let Ok(sk) = secp256k1::SecretKey::from_byte_array(p.bytes(32).try_into().unwrap()) else { continue };
            let kp = secp256k1::Keypair::from_secret_key(&secp, &sk);
            let msg = p.bytes(if i % 2 == 0 { 32 } else { i % 90 });
            let aux: [u8; 32] = p.bytes(32).try_into().unwrap();
            let sig = secp.sign_schnorr_with_aux_rand(&msg, &kp, &aux);
            let (xo, _) = kp.x_only_public_key();
            let mut vkb = vec![2u8];
            vkb.extend_from_slice(&xo.serialize());
            let ok = match (VerifyingKey::<C>::deserialize(&vkb), Signature::<C>::deserialize(sig.as_ref())) {
                (Ok(vk), Ok(s)) => vk.verify(&msg, &s).is_ok(),
                _ => false,
            };
            if !ok {
                ctx.viol("single-signer", "library-rejects-libsecp256k1-signature", json!({"vk": hex::encode(&vkb), "msg": hex::encode(&msg), "sig": hex::encode(sig.as_ref())}));
            }
            ctx.count("reference_signatures_checked");
        }
        ctx.class("reference-signer/libsecp256k1/valid");
    }
}
