//! One trait over every transmittable / storable type: binary (the type's own serialize /
//! deserialize methods) and self-describing (serde_json) encodings.

use frost_core::keys::dkg::{round1 as d1, round2 as d2};
use frost_core::keys::repairable::{Delta, Sigma};
use frost_core::keys::{
    CoefficientCommitment, KeyPackage, PublicKeyPackage, SecretShare, SigningShare, VerifiableSecretSharingCommitment,
    VerifyingShare,
};
use frost_core::round1::{Nonce, NonceCommitment, SigningCommitments, SigningNonces};
use frost_core::round2::SignatureShare;
use frost_core::{Identifier, Signature, SigningKey, SigningPackage, VerifyingKey};
use frost_rerandomized::Randomizer;

use crate::suite::Suite;

pub trait Wire<C: Suite>: Sized + Clone + PartialEq {
    const NAME: &'static str;
    /// fixed-size primitive (canonicity clause of C12 applies) or container
    const PRIMITIVE: bool;
    const HAS_JSON: bool;
    fn enc(&self) -> Result<Vec<u8>, String>;
    fn dec(b: &[u8]) -> Result<Self, String>;
    fn to_json(&self) -> Result<String, String>;
    fn from_json(s: &str) -> Result<Self, String>;
}

macro_rules! wire {
    ($ty:ty, $name:expr, prim=$prim:expr, enc=$enc:expr, json) => {
        impl<C: Suite> Wire<C> for $ty {
            const NAME: &'static str = $name;
            const PRIMITIVE: bool = $prim;
            const HAS_JSON: bool = true;
            fn enc(&self) -> Result<Vec<u8>, String> {
                #[allow(clippy::redundant_closure_call)]
                ($enc)(self)
            }
            fn dec(b: &[u8]) -> Result<Self, String> {
                <$ty>::deserialize(b).map_err(|e| format!("{e:?}"))
            }
            fn to_json(&self) -> Result<String, String> {
                serde_json::to_string(self).map_err(|e| e.to_string())
            }
            fn from_json(s: &str) -> Result<Self, String> {
                serde_json::from_str(s).map_err(|e| e.to_string())
            }
        }
    };
    ($ty:ty, $name:expr, prim=$prim:expr, enc=$enc:expr, nojson) => {
        impl<C: Suite> Wire<C> for $ty {
            const NAME: &'static str = $name;
            const PRIMITIVE: bool = $prim;
            const HAS_JSON: bool = false;
            fn enc(&self) -> Result<Vec<u8>, String> {
                #[allow(clippy::redundant_closure_call)]
                ($enc)(self)
            }
            fn dec(b: &[u8]) -> Result<Self, String> {
                <$ty>::deserialize(b).map_err(|e| format!("{e:?}"))
            }
            fn to_json(&self) -> Result<String, String> {
                Err("no serde".into())
            }
            fn from_json(_s: &str) -> Result<Self, String> {
                Err("no serde".into())
            }
        }
    };
}

fn inf<T, F: Fn(&T) -> Vec<u8>>(f: F) -> impl Fn(&T) -> Result<Vec<u8>, String> {
    move |x| Ok(f(x))
}
fn fal<T, E: core::fmt::Debug, F: Fn(&T) -> Result<Vec<u8>, E>>(f: F) -> impl Fn(&T) -> Result<Vec<u8>, String> {
    move |x| f(x).map_err(|e| format!("{e:?}"))
}

wire!(Identifier<C>, "Identifier", prim = true, enc = inf(|x: &Identifier<C>| x.serialize()), json);
wire!(SigningKey<C>, "SigningKey", prim = true, enc = inf(|x: &SigningKey<C>| x.serialize()), nojson);
wire!(VerifyingKey<C>, "VerifyingKey", prim = true, enc = fal(|x: &VerifyingKey<C>| x.serialize()), json);
wire!(SigningShare<C>, "SigningShare", prim = true, enc = inf(|x: &SigningShare<C>| x.serialize()), json);
wire!(VerifyingShare<C>, "VerifyingShare", prim = true, enc = fal(|x: &VerifyingShare<C>| x.serialize()), json);
wire!(Signature<C>, "Signature", prim = true, enc = fal(|x: &Signature<C>| x.serialize()), json);
wire!(SignatureShare<C>, "SignatureShare", prim = true, enc = inf(|x: &SignatureShare<C>| x.serialize()), json);
wire!(Nonce<C>, "Nonce", prim = true, enc = inf(|x: &Nonce<C>| x.serialize()), json);
wire!(NonceCommitment<C>, "NonceCommitment", prim = true, enc = fal(|x: &NonceCommitment<C>| x.serialize()), json);
wire!(CoefficientCommitment<C>, "CoefficientCommitment", prim = true, enc = fal(|x: &CoefficientCommitment<C>| x.serialize()), json);
wire!(Delta<C>, "Delta", prim = true, enc = inf(|x: &Delta<C>| x.serialize()), json);
wire!(Sigma<C>, "Sigma", prim = true, enc = inf(|x: &Sigma<C>| x.serialize()), json);
wire!(Randomizer<C>, "Randomizer", prim = true, enc = inf(|x: &Randomizer<C>| x.serialize()), json);
wire!(SigningNonces<C>, "SigningNonces", prim = false, enc = fal(|x: &SigningNonces<C>| x.serialize()), json);
wire!(SigningCommitments<C>, "SigningCommitments", prim = false, enc = fal(|x: &SigningCommitments<C>| x.serialize()), json);
wire!(SigningPackage<C>, "SigningPackage", prim = false, enc = fal(|x: &SigningPackage<C>| x.serialize()), json);
wire!(SecretShare<C>, "SecretShare", prim = false, enc = fal(|x: &SecretShare<C>| x.serialize()), json);
wire!(KeyPackage<C>, "KeyPackage", prim = false, enc = fal(|x: &KeyPackage<C>| x.serialize()), json);
wire!(PublicKeyPackage<C>, "PublicKeyPackage", prim = false, enc = fal(|x: &PublicKeyPackage<C>| x.serialize()), json);
wire!(d1::Package<C>, "dkg::round1::Package", prim = false, enc = fal(|x: &d1::Package<C>| x.serialize()), json);
wire!(d1::SecretPackage<C>, "dkg::round1::SecretPackage", prim = false, enc = fal(|x: &d1::SecretPackage<C>| x.serialize()), json);
wire!(d2::Package<C>, "dkg::round2::Package", prim = false, enc = fal(|x: &d2::Package<C>| x.serialize()), json);
wire!(d2::SecretPackage<C>, "dkg::round2::SecretPackage", prim = false, enc = fal(|x: &d2::SecretPackage<C>| x.serialize()), json);

/// VerifiableSecretSharingCommitment has two binary forms (whole / list); the whole form is used here,
/// the list form is exercised separately in C12.
impl<C: Suite> Wire<C> for VerifiableSecretSharingCommitment<C> {
    const NAME: &'static str = "VerifiableSecretSharingCommitment";
    const PRIMITIVE: bool = false;
    const HAS_JSON: bool = true;
    fn enc(&self) -> Result<Vec<u8>, String> {
        self.serialize_whole().map_err(|e| format!("{e:?}"))
    }
    fn dec(b: &[u8]) -> Result<Self, String> {
        Self::deserialize_whole(b).map_err(|e| format!("{e:?}"))
    }
    fn to_json(&self) -> Result<String, String> {
        serde_json::to_string(self).map_err(|e| e.to_string())
    }
    fn from_json(s: &str) -> Result<Self, String> {
        serde_json::from_str(s).map_err(|e| e.to_string())
    }
}

#[derive(Clone, Copy, PartialEq, Debug)]
pub enum Store {
    /// keep the in-memory value
    Mem,
    Bin,
    Json,
}

/// "Persist and restart": encode, drop the live object, decode.
pub fn persist<C: Suite, T: Wire<C>>(x: T, how: Store) -> Result<T, String> {
    match how {
        Store::Mem => Ok(x),
        Store::Bin => {
            let b = x.enc()?;
            drop(x);
            T::dec(&b)
        }
        Store::Json => {
            let s = x.to_json()?;
            drop(x);
            T::from_json(&s)
        }
    }
}
