//! One trait over every transmittable / storable type: binary (the type's own serialize /
//! deserialize methods) and self-describing (serde_json) encodings.

use frost_core::keys::dkg::{round1 as d1, round2 as d2};
use frost_core::keys::repairable::{Delta, Sigma};
use frost_core::keys::{
    CoefficientCommitment, KeyPackage, PublicKeyPackage, SecretShare, SigningShare, VerifiableSecretSharingCommitment,
    VerifyingShare,
};
use frost_core::round1::{Nonce, NonceCommitment, SigningCommitments, SigningNonces};
use frost_core::round2::SignatureShare;
use frost_core::{Identifier, Signature, SigningKey, SigningPackage, VerifyingKey};
use frost_rerandomized::Randomizer;

use crate::suite::Suite;

pub trait Wire<C: Suite>: Sized + Clone + PartialEq {
    const NAME: &'static str;
    /// fixed-size primitive (canonicity clause of C12 applies) or container
    const PRIMITIVE: bool;
    const HAS_JSON: bool;
    fn enc(&self) -> Result<Vec<u8>, String>;
    fn dec(b: &[u8]) -> Result<Self, String>;
    fn to_json(&self) -> Result<String, String>;
    fn from_json(s: &str) -> Result<Self, String>;
    /// "custom serialization": the value taken apart with its public getters, every component stored with the component's
    /// own `serialize`, and put together again with the public constructor the library offers for this purpose.
    /// None where the type has no such constructor.
    fn parts(&self) -> Option<Result<Self, String>> {
        None
    }
}

macro_rules! wire {
    ($ty:ty, $name:expr, prim=$prim:expr, enc=$enc:expr, json) => {
        impl<C: Suite> Wire<C> for $ty {
            const NAME: &'static str = $name;
            const PRIMITIVE: bool = $prim;
            const HAS_JSON: bool = true;
            fn enc(&self) -> Result<Vec<u8>, String> {
                #[allow(clippy::redundant_closure_call)]
                ($enc)(self)
            }
            fn dec(b: &[u8]) -> Result<Self, String> {
                <$ty>::deserialize(b).map_err(|e| format!("{e:?}"))
            }
            fn to_json(&self) -> Result<String, String> {
                serde_json::to_string(self).map_err(|e| e.to_string())
            }
            fn from_json(s: &str) -> Result<Self, String> {
                serde_json::from_str(s).map_err(|e| e.to_string())
            }
        }
    };
    ($ty:ty, $name:expr, prim=$prim:expr, enc=$enc:expr, json, parts=$parts:expr) => {
        impl<C: Suite> Wire<C> for $ty {
            const NAME: &'static str = $name;
            const PRIMITIVE: bool = $prim;
            const HAS_JSON: bool = true;
            fn enc(&self) -> Result<Vec<u8>, String> {
                #[allow(clippy::redundant_closure_call)]
                ($enc)(self)
            }
            fn dec(b: &[u8]) -> Result<Self, String> {
                <$ty>::deserialize(b).map_err(|e| format!("{e:?}"))
            }
            fn to_json(&self) -> Result<String, String> {
                serde_json::to_string(self).map_err(|e| e.to_string())
            }
            fn from_json(s: &str) -> Result<Self, String> {
                serde_json::from_str(s).map_err(|e| e.to_string())
            }
            fn parts(&self) -> Option<Result<Self, String>> {
                #[allow(clippy::redundant_closure_call)]
                Some(($parts)(self))
            }
        }
    };
    ($ty:ty, $name:expr, prim=$prim:expr, enc=$enc:expr, nojson) => {
        impl<C: Suite> Wire<C> for $ty {
            const NAME: &'static str = $name;
            const PRIMITIVE: bool = $prim;
            const HAS_JSON: bool = false;
            fn enc(&self) -> Result<Vec<u8>, String> {
                #[allow(clippy::redundant_closure_call)]
                ($enc)(self)
            }
            fn dec(b: &[u8]) -> Result<Self, String> {
                <$ty>::deserialize(b).map_err(|e| format!("{e:?}"))
            }
            fn to_json(&self) -> Result<String, String> {
                Err("no serde".into())
            }
            fn from_json(_s: &str) -> Result<Self, String> {
                Err("no serde".into())
            }
        }
    };
}

fn inf<T, F: Fn(&T) -> Vec<u8>>(f: F) -> impl Fn(&T) -> Result<Vec<u8>, String> {
    move |x| Ok(f(x))
}
fn fal<T, E: core::fmt::Debug, F: Fn(&T) -> Result<Vec<u8>, E>>(f: F) -> impl Fn(&T) -> Result<Vec<u8>, String> {
    move |x| f(x).map_err(|e| format!("{e:?}"))
}

fn e2s<E: core::fmt::Debug>(e: E) -> String {
    format!("{e:?}")
}
fn p_id<C: Suite>(x: &Identifier<C>) -> Result<Identifier<C>, String> {
    Identifier::<C>::deserialize(&x.serialize()).map_err(e2s)
}
fn p_ss<C: Suite>(x: &SigningShare<C>) -> Result<SigningShare<C>, String> {
    SigningShare::<C>::deserialize(&x.serialize()).map_err(e2s)
}
fn p_vs<C: Suite>(x: &VerifyingShare<C>) -> Result<VerifyingShare<C>, String> {
    VerifyingShare::<C>::deserialize(&x.serialize().map_err(e2s)?).map_err(e2s)
}
fn p_vk<C: Suite>(x: &VerifyingKey<C>) -> Result<VerifyingKey<C>, String> {
    VerifyingKey::<C>::deserialize(&x.serialize().map_err(e2s)?).map_err(e2s)
}
fn p_nc<C: Suite>(x: &NonceCommitment<C>) -> Result<NonceCommitment<C>, String> {
    NonceCommitment::<C>::deserialize(&x.serialize().map_err(e2s)?).map_err(e2s)
}
fn p_nonce<C: Suite>(x: &Nonce<C>) -> Result<Nonce<C>, String> {
    Nonce::<C>::deserialize(&x.serialize()).map_err(e2s)
}
/// whole form
fn p_vss_whole<C: Suite>(x: &VerifiableSecretSharingCommitment<C>) -> Result<VerifiableSecretSharingCommitment<C>, String> {
    VerifiableSecretSharingCommitment::<C>::deserialize_whole(&x.serialize_whole().map_err(e2s)?).map_err(e2s)
}
/// list form
fn p_vss_list<C: Suite>(x: &VerifiableSecretSharingCommitment<C>) -> Result<VerifiableSecretSharingCommitment<C>, String> {
    VerifiableSecretSharingCommitment::<C>::deserialize(x.serialize().map_err(e2s)?).map_err(e2s)
}
fn p_scalar<C: Suite>(x: crate::alg::Sc<C>) -> Result<crate::alg::Sc<C>, String> {
    Ok(p_ss::<C>(&SigningShare::<C>::new(x))?.to_scalar())
}

wire!(Identifier<C>, "Identifier", prim = true, enc = inf(|x: &Identifier<C>| x.serialize()), json);
wire!(SigningKey<C>, "SigningKey", prim = true, enc = inf(|x: &SigningKey<C>| x.serialize()), nojson);
wire!(VerifyingKey<C>, "VerifyingKey", prim = true, enc = fal(|x: &VerifyingKey<C>| x.serialize()), json);
wire!(SigningShare<C>, "SigningShare", prim = true, enc = inf(|x: &SigningShare<C>| x.serialize()), json);
wire!(VerifyingShare<C>, "VerifyingShare", prim = true, enc = fal(|x: &VerifyingShare<C>| x.serialize()), json);
wire!(Signature<C>, "Signature", prim = true, enc = fal(|x: &Signature<C>| x.serialize()), json);
wire!(SignatureShare<C>, "SignatureShare", prim = true, enc = inf(|x: &SignatureShare<C>| x.serialize()), json);
wire!(Nonce<C>, "Nonce", prim = true, enc = inf(|x: &Nonce<C>| x.serialize()), json);
wire!(NonceCommitment<C>, "NonceCommitment", prim = true, enc = fal(|x: &NonceCommitment<C>| x.serialize()), json);
wire!(CoefficientCommitment<C>, "CoefficientCommitment", prim = true, enc = fal(|x: &CoefficientCommitment<C>| x.serialize()), json);
wire!(Delta<C>, "Delta", prim = true, enc = inf(|x: &Delta<C>| x.serialize()), json);
wire!(Sigma<C>, "Sigma", prim = true, enc = inf(|x: &Sigma<C>| x.serialize()), json);
wire!(Randomizer<C>, "Randomizer", prim = true, enc = inf(|x: &Randomizer<C>| x.serialize()), json);
wire!(SigningNonces<C>, "SigningNonces", prim = false, enc = fal(|x: &SigningNonces<C>| x.serialize()), json, parts = |x: &SigningNonces<C>| Ok(SigningNonces::<C>::from_nonces(p_nonce::<C>(x.hiding())?, p_nonce::<C>(x.binding())?)));
wire!(SigningCommitments<C>, "SigningCommitments", prim = false, enc = fal(|x: &SigningCommitments<C>| x.serialize()), json, parts = |x: &SigningCommitments<C>| Ok(SigningCommitments::<C>::new(p_nc::<C>(x.hiding())?, p_nc::<C>(x.binding())?)));
wire!(SigningPackage<C>, "SigningPackage", prim = false, enc = fal(|x: &SigningPackage<C>| x.serialize()), json);
wire!(SecretShare<C>, "SecretShare", prim = false, enc = fal(|x: &SecretShare<C>| x.serialize()), json, parts = |x: &SecretShare<C>| Ok(SecretShare::<C>::new(p_id::<C>(x.identifier())?, p_ss::<C>(x.signing_share())?, p_vss_list::<C>(x.commitment())?)));
wire!(KeyPackage<C>, "KeyPackage", prim = false, enc = fal(|x: &KeyPackage<C>| x.serialize()), json, parts = |x: &KeyPackage<C>| Ok(KeyPackage::<C>::new(p_id::<C>(x.identifier())?, p_ss::<C>(x.signing_share())?, p_vs::<C>(x.verifying_share())?, p_vk::<C>(x.verifying_key())?, *x.min_signers())));
wire!(PublicKeyPackage<C>, "PublicKeyPackage", prim = false, enc = fal(|x: &PublicKeyPackage<C>| x.serialize()), json, parts = |x: &PublicKeyPackage<C>| {
    let mut m = std::collections::BTreeMap::new();
    for (i, v) in x.verifying_shares() {
        m.insert(p_id::<C>(i)?, p_vs::<C>(v)?);
    }
    Ok(PublicKeyPackage::<C>::new(m, p_vk::<C>(x.verifying_key())?, x.min_signers()))
});
wire!(d1::Package<C>, "dkg::round1::Package", prim = false, enc = fal(|x: &d1::Package<C>| x.serialize()), json, parts = |x: &d1::Package<C>| Ok(d1::Package::<C>::new(p_vss_whole::<C>(x.commitment())?, Signature::<C>::deserialize(&x.proof_of_knowledge().serialize().map_err(e2s)?).map_err(e2s)?)));
wire!(d1::SecretPackage<C>, "dkg::round1::SecretPackage", prim = false, enc = fal(|x: &d1::SecretPackage<C>| x.serialize()), json, parts = |x: &d1::SecretPackage<C>| {
    let mut co = vec![];
    for c in x.coefficients() {
        co.push(p_scalar::<C>(c)?);
    }
    Ok(d1::SecretPackage::<C>::new(p_id::<C>(x.identifier())?, co, p_vss_whole::<C>(x.commitment())?, *x.min_signers(), *x.max_signers()))
});
wire!(d2::Package<C>, "dkg::round2::Package", prim = false, enc = fal(|x: &d2::Package<C>| x.serialize()), json, parts = |x: &d2::Package<C>| Ok(d2::Package::<C>::new(p_ss::<C>(x.signing_share())?)));
wire!(d2::SecretPackage<C>, "dkg::round2::SecretPackage", prim = false, enc = fal(|x: &d2::SecretPackage<C>| x.serialize()), json, parts = |x: &d2::SecretPackage<C>| Ok(d2::SecretPackage::<C>::new(p_id::<C>(x.identifier())?, p_vss_whole::<C>(x.commitment())?, p_scalar::<C>(x.secret_share())?, *x.min_signers(), *x.max_signers())));

/// VerifiableSecretSharingCommitment has two binary forms (whole / list); the whole form is used here,
/// the list form is exercised separately in C12.
impl<C: Suite> Wire<C> for VerifiableSecretSharingCommitment<C> {
    const NAME: &'static str = "VerifiableSecretSharingCommitment";
    const PRIMITIVE: bool = false;
    const HAS_JSON: bool = true;
    fn enc(&self) -> Result<Vec<u8>, String> {
        self.serialize_whole().map_err(|e| format!("{e:?}"))
    }
    fn dec(b: &[u8]) -> Result<Self, String> {
        Self::deserialize_whole(b).map_err(|e| format!("{e:?}"))
    }
    fn to_json(&self) -> Result<String, String> {
        serde_json::to_string(self).map_err(|e| e.to_string())
    }
    fn from_json(s: &str) -> Result<Self, String> {
        serde_json::from_str(s).map_err(|e| e.to_string())
    }
}

#[derive(Clone, Copy, PartialEq, Debug)]
pub enum Store {
    /// keep the in-memory value
    Mem,
    Bin,
    Json,
    /// custom serialization by components (`Wire::parts`); the binary form where the type offers no constructor
    Parts,
}

/// "Persist and restart": encode, drop the live object, decode.
pub fn persist<C: Suite, T: Wire<C>>(x: T, how: Store) -> Result<T, String> {
    match how {
        Store::Mem => Ok(x),
        Store::Bin => {
            let b = x.enc()?;
            drop(x);
            T::dec(&b)
        }
        Store::Json => {
            let s = x.to_json()?;
            drop(x);
            T::from_json(&s)
        }
        Store::Parts => match x.parts() {
            Some(r) => r,
            None => {
                let b = x.enc()?;
                drop(x);
                T::dec(&b)
            }
        },
    }
}
