//! Generic algebra over a ciphersuite's Field/Group, written independently of frost-core's
//! own polynomial / Lagrange / encoding helpers. The curve crate is used as a calculator only.

use frost_core::{Ciphersuite, Field, Group, Identifier};

use crate::suite::Suite;

pub type Sc<C> = frost_core::Scalar<C>;
pub type El<C> = frost_core::Element<C>;
pub type F<C> = <<C as Ciphersuite>::Group as Group>::Field;
pub type G<C> = <C as Ciphersuite>::Group;

pub fn zero<C: Ciphersuite>() -> Sc<C> {
    F::<C>::zero()
}
pub fn one<C: Ciphersuite>() -> Sc<C> {
    F::<C>::one()
}
pub fn g<C: Ciphersuite>() -> El<C> {
    G::<C>::generator()
}
pub fn ident<C: Ciphersuite>() -> El<C> {
    G::<C>::identity()
}
pub fn neg<C: Ciphersuite>(s: Sc<C>) -> Sc<C> {
    zero::<C>() - s
}
pub fn inv<C: Ciphersuite>(s: Sc<C>) -> Option<Sc<C>> {
    F::<C>::invert(&s).ok()
}

/// small integer -> scalar by double-and-add on `one` (no decoding involved)
pub fn sc_u64<C: Ciphersuite>(v: u64) -> Sc<C> {
    let mut acc = zero::<C>();
    for i in (0..64).rev() {
        acc = acc + acc;
        if (v >> i) & 1 == 1 {
            acc = acc + one::<C>();
        }
    }
    acc
}

/// big-endian byte string -> scalar, reduced mod the group order by Horner's rule.
pub fn sc_from_be_bytes_mod<C: Ciphersuite>(b: &[u8]) -> Sc<C> {
    let k256 = sc_u64::<C>(256);
    let mut acc = zero::<C>();
    for byte in b {
        acc = acc * k256 + sc_u64::<C>(*byte as u64);
    }
    acc
}
pub fn sc_from_le_bytes_mod<C: Ciphersuite>(b: &[u8]) -> Sc<C> {
    let mut v = b.to_vec();
    v.reverse();
    sc_from_be_bytes_mod::<C>(&v)
}

pub fn sc_bytes<C: Ciphersuite>(s: &Sc<C>) -> Vec<u8> {
    F::<C>::serialize(s).as_ref().to_vec()
}
/// canonical integer value of a scalar as big-endian bytes (for ordering / integer comparisons)
pub fn sc_int_be<C: Suite>(s: &Sc<C>) -> Vec<u8> {
    let mut b = sc_bytes::<C>(s);
    if C::LE {
        b.reverse();
    }
    b
}
pub fn sc_decode<C: Ciphersuite>(b: &[u8]) -> Option<Sc<C>> {
    let ser: <F<C> as Field>::Serialization = b.try_into().ok()?;
    F::<C>::deserialize(&ser).ok()
}
pub fn el_bytes<C: Ciphersuite>(e: &El<C>) -> Option<Vec<u8>> {
    G::<C>::serialize(e).ok().map(|s| s.as_ref().to_vec())
}
pub fn el_decode<C: Ciphersuite>(b: &[u8]) -> Option<El<C>> {
    let ser: <G<C> as Group>::Serialization = b.try_into().ok()?;
    G::<C>::deserialize(&ser).ok()
}
pub fn el_hex<C: Ciphersuite>(e: &El<C>) -> String {
    el_bytes::<C>(e).map(hex::encode).unwrap_or_else(|| "<identity>".into())
}
pub fn sc_hex<C: Ciphersuite>(s: &Sc<C>) -> String {
    hex::encode(sc_bytes::<C>(s))
}

pub fn id_sc<C: Ciphersuite>(id: &Identifier<C>) -> Sc<C> {
    id.to_scalar()
}
pub fn id_hex<C: Ciphersuite>(id: &Identifier<C>) -> String {
    hex::encode(id.serialize())
}
/// integer value of an identifier (big-endian bytes) — used to order identifiers independently of
/// the library's `Ord` impl.
pub fn id_int<C: Suite>(id: &Identifier<C>) -> Vec<u8> {
    sc_int_be::<C>(&id.to_scalar())
}
pub fn sort_ids_numeric<C: Suite>(ids: &mut Vec<Identifier<C>>) {
    ids.sort_by(|a, b| id_int::<C>(a).cmp(&id_int::<C>(b)));
}

/// Lagrange basis coefficient l_i(x) over the points `xs`, for index `i`.
pub fn lagrange_at<C: Ciphersuite>(xs: &[Sc<C>], i: usize, x: Sc<C>) -> Option<Sc<C>> {
    let mut num = one::<C>();
    let mut den = one::<C>();
    for (j, xj) in xs.iter().enumerate() {
        if j == i {
            continue;
        }
        num = num * (x - *xj);
        den = den * (xs[i] - *xj);
    }
    Some(num * inv::<C>(den)?)
}

/// Interpolate the polynomial through (xs, ys) and evaluate at x.
pub fn interpolate_at<C: Ciphersuite>(xs: &[Sc<C>], ys: &[Sc<C>], x: Sc<C>) -> Option<Sc<C>> {
    let mut acc = zero::<C>();
    for i in 0..xs.len() {
        acc = acc + lagrange_at::<C>(xs, i, x)? * ys[i];
    }
    Some(acc)
}

/// sum_k x^k * coeffs[k] computed with explicit powers (not Horner), scalars.
pub fn eval_poly<C: Ciphersuite>(coeffs: &[Sc<C>], x: Sc<C>) -> Sc<C> {
    let mut acc = zero::<C>();
    let mut p = one::<C>();
    for c in coeffs {
        acc = acc + *c * p;
        p = p * x;
    }
    acc
}
/// sum_k x^k * C_k over group elements.
pub fn eval_commit<C: Ciphersuite>(comm: &[El<C>], x: Sc<C>) -> El<C> {
    let mut acc = ident::<C>();
    let mut p = one::<C>();
    for c in comm {
        acc = acc + *c * p;
        p = p * x;
    }
    acc
}

/// y parity of a secp256k1 element taken from its SEC1 tag (0 even, 1 odd)
pub fn parity_tag<C: Ciphersuite>(e: &El<C>) -> u8 {
    match el_bytes::<C>(e) {
        Some(b) => b[0] & 1,
        None => 0,
    }
}
