"""Big-integer elliptic-curve arithmetic written from the standards (SEC1/SEC2, FIPS 186, RFC 8032,
RFC 9496). Only `int` and `pow` are used. No code is shared with the Rust curve crates.

Points are opaque tuples; every group object offers: identity, G, add, neg, mul, eq, is_identity,
encode, decode (strict / canonical), order n.
"""


def inv(x, p):
    return pow(x, -1, p)


def sqrt_mod(a, p):
    """square root mod p for p = 3 mod 4 or p = 5 mod 8; returns None if a is not a square"""
    a %= p
    if a == 0:
        return 0
    if p % 4 == 3:
        r = pow(a, (p + 1) // 4, p)
    elif p % 8 == 5:
        r = pow(a, (p + 3) // 8, p)
        if (r * r - a) % p != 0:
            r = r * pow(2, (p - 1) // 4, p) % p
    else:
        raise NotImplementedError
    return r if (r * r - a) % p == 0 else None


# --------------------------------------------------------------------------------------------
# short Weierstrass curves y^2 = x^3 + a x + b, Jacobian coordinates
# --------------------------------------------------------------------------------------------
class Weierstrass:
    def __init__(self, name, p, a, b, gx, gy, n):
        self.name, self.p, self.a, self.b, self.n = name, p, a % p, b, n
        self.G = (gx, gy, 1)
        self.identity = (1, 1, 0)
        self.elem_len = 33
        self.scalar_len = 32
        assert self.on_curve(gx, gy)

    def on_curve(self, x, y):
        return (y * y - (x * x * x + self.a * x + self.b)) % self.p == 0

    def is_identity(self, P):
        return P[2] % self.p == 0

    def affine(self, P):
        if self.is_identity(P):
            return None
        zi = inv(P[2], self.p)
        zi2 = zi * zi % self.p
        return (P[0] * zi2 % self.p, P[1] * zi2 * zi % self.p)

    def dbl(self, P):
        p = self.p
        X, Y, Z = P
        if Z == 0 or Y == 0:
            return self.identity
        YY = Y * Y % p
        S = 4 * X * YY % p
        ZZ = Z * Z % p
        M = (3 * X * X + self.a * ZZ * ZZ) % p
        X3 = (M * M - 2 * S) % p
        Y3 = (M * (S - X3) - 8 * YY * YY) % p
        Z3 = 2 * Y * Z % p
        return (X3, Y3, Z3)

    def add(self, P, Q):
        p = self.p
        if self.is_identity(P):
            return Q
        if self.is_identity(Q):
            return P
        X1, Y1, Z1 = P
        X2, Y2, Z2 = Q
        Z1Z1 = Z1 * Z1 % p
        Z2Z2 = Z2 * Z2 % p
        U1 = X1 * Z2Z2 % p
        U2 = X2 * Z1Z1 % p
        S1 = Y1 * Z2 * Z2Z2 % p
        S2 = Y2 * Z1 * Z1Z1 % p
        if U1 == U2:
            if S1 != S2:
                return self.identity
            return self.dbl(P)
        H = (U2 - U1) % p
        R = (S2 - S1) % p
        HH = H * H % p
        HHH = H * HH % p
        V = U1 * HH % p
        X3 = (R * R - HHH - 2 * V) % p
        Y3 = (R * (V - X3) - S1 * HHH) % p
        Z3 = H * Z1 * Z2 % p
        return (X3, Y3, Z3)

    def neg(self, P):
        return (P[0], (-P[1]) % self.p, P[2])

    def mul(self, P, k):
        k %= self.n
        R = self.identity
        for bit in bin(k)[2:] if k else "":
            R = self.dbl(R)
            if bit == "1":
                R = self.add(R, P)
        return R

    def eq(self, P, Q):
        a, b = self.affine(P), self.affine(Q)
        return a == b

    def encode(self, P):
        a = self.affine(P)
        if a is None:
            raise ValueError("identity")
        return bytes([2 + (a[1] & 1)]) + a[0].to_bytes(32, "big")

    def lift_x(self, x, odd):
        if x >= self.p:
            return None
        y = sqrt_mod(x * x * x + self.a * x + self.b, self.p)
        if y is None:
            return None
        if (y & 1) != odd:
            y = self.p - y
        return (x, y, 1)

    def decode(self, b):
        """strict SEC1 compressed: exactly 33 bytes, tag 02/03, x < p, on curve"""
        if len(b) != 33 or b[0] not in (2, 3):
            return None
        return self.lift_x(int.from_bytes(b[1:], "big"), b[0] & 1)

    def has_even_y(self, P):
        return self.affine(P)[1] % 2 == 0

    def xbytes(self, P):
        return self.affine(P)[0].to_bytes(32, "big")

    # scalars: 32 bytes big endian, < n
    def enc_scalar(self, s):
        return (s % self.n).to_bytes(32, "big")

    def dec_scalar(self, b):
        if len(b) != 32:
            return None
        v = int.from_bytes(b, "big")
        return v if v < self.n else None


P256 = Weierstrass(
    "p256",
    0xFFFFFFFF00000001000000000000000000000000FFFFFFFFFFFFFFFFFFFFFFFF,
    -3,
    0x5AC635D8AA3A93E7B3EBBD55769886BC651D06B0CC53B0F63BCE3C3E27D2604B,
    0x6B17D1F2E12C4247F8BCE6E563A440F277037D812DEB33A0F4A13945D898C296,
    0x4FE342E2FE1A7F9B8EE7EB4A7C0F9E162BCE33576B315ECECBB6406837BF51F5,
    0xFFFFFFFF00000000FFFFFFFFFFFFFFFFBCE6FAADA7179E84F3B9CAC2FC632551,
)
SECP256K1 = Weierstrass(
    "secp256k1",
    0xFFFFFFFFFFFFFFFFFFFFFFFFFFFFFFFFFFFFFFFFFFFFFFFFFFFFFFFEFFFFFC2F,
    0,
    7,
    0x79BE667EF9DCBBAC55A06295CE870B07029BFCDB2DCE28D959F2815B16F81798,
    0x483ADA7726A3C4655DA4FBFC0E1108A8FD17B448A68554199C47D08FFB10D4B8,
    0xFFFFFFFFFFFFFFFFFFFFFFFFFFFFFFFEBAAEDCE6AF48A03BBFD25E8CD0364141,
)


# --------------------------------------------------------------------------------------------
# twisted Edwards curves a x^2 + y^2 = 1 + d x^2 y^2, projective (X:Y:Z) with generic formulas
# (add-2008-bbjlp, dbl-2008-bbjlp — valid for any a, complete for these curves)
# --------------------------------------------------------------------------------------------
class Edwards:
    def __init__(self, name, p, a, d, gx, gy, n, cofactor, enc_len):
        self.name, self.p, self.a, self.d, self.n, self.h = name, p, a % p, d % p, n, cofactor
        self.G = (gx, gy, 1)
        self.identity = (0, 1, 1)
        self.elem_len = enc_len
        self.scalar_len = enc_len if name == "ed448" else 32
        assert self.on_curve(gx, gy)

    def on_curve(self, x, y):
        p = self.p
        return (self.a * x * x + y * y - 1 - self.d * x * x * y * y) % p == 0

    def add(self, P, Q):
        p = self.p
        X1, Y1, Z1 = P
        X2, Y2, Z2 = Q
        A = Z1 * Z2 % p
        B = A * A % p
        C = X1 * X2 % p
        D = Y1 * Y2 % p
        E = self.d * C * D % p
        F = (B - E) % p
        G_ = (B + E) % p
        X3 = A * F * ((X1 + Y1) * (X2 + Y2) - C - D) % p
        Y3 = A * G_ * (D - self.a * C) % p
        Z3 = F * G_ % p
        return (X3, Y3, Z3)

    def dbl(self, P):
        return self.add(P, P)

    def neg(self, P):
        return ((-P[0]) % self.p, P[1], P[2])

    def affine(self, P):
        zi = inv(P[2], self.p)
        return (P[0] * zi % self.p, P[1] * zi % self.p)

    def is_identity(self, P):
        x, y = self.affine(P)
        return x == 0 and y == 1

    def eq(self, P, Q):
        p = self.p
        return (P[0] * Q[2] - Q[0] * P[2]) % p == 0 and (P[1] * Q[2] - Q[1] * P[2]) % p == 0

    def mul_raw(self, P, k):
        """multiplication by a non-negative integer, no reduction (needed for order checks)"""
        R = self.identity
        for bit in bin(k)[2:] if k else "":
            R = self.add(R, R)
            if bit == "1":
                R = self.add(R, P)
        return R

    def mul(self, P, k):
        return self.mul_raw(P, k % self.n)

    def in_prime_subgroup(self, P):
        return self.is_identity(self.mul_raw(P, self.n))

    def encode(self, P):
        x, y = self.affine(P)
        if x == 0 and y == 1:
            raise ValueError("identity")
        L = self.elem_len
        v = y | ((x & 1) << (8 * L - 1))
        return v.to_bytes(L, "little")

    def decode_any(self, b):
        """RFC 8032 decoding (5.1.3 / 5.2.3), canonical y required; any curve point (incl. torsion)"""
        L = self.elem_len
        if len(b) != L:
            return None
        v = int.from_bytes(b, "little")
        sign = v >> (8 * L - 1)
        y = v & ((1 << (8 * L - 1)) - 1)
        if y >= self.p:
            return None
        p = self.p
        # x^2 = (y^2 - 1) / (d y^2 - a)
        num = (y * y - 1) % p
        den = (self.d * y * y - self.a) % p
        if den == 0:
            return None
        x2 = num * inv(den, p) % p
        x = sqrt_mod(x2, p) if p % 4 == 3 or p % 8 == 5 else None
        if x is None:
            return None
        if x == 0 and sign == 1:
            return None
        if (x & 1) != sign:
            x = p - x
        return (x, y, 1)

    def decode(self, b):
        """strict: canonical, non-identity, in the prime-order subgroup"""
        P = self.decode_any(b)
        if P is None or self.is_identity(P) or not self.in_prime_subgroup(P):
            return None
        return P

    def enc_scalar(self, s):
        return (s % self.n).to_bytes(self.scalar_len, "little")

    def dec_scalar(self, b):
        if len(b) != self.scalar_len:
            return None
        v = int.from_bytes(b, "little")
        return v if v < self.n else None


P25519 = 2**255 - 19
ED25519 = Edwards(
    "ed25519",
    P25519,
    -1,
    (-121665 * inv(121666, P25519)) % P25519,
    15112221349535400772501151409588531511454012693041857206046113283949847762202,
    46316835694926478169428394003475163141307993866256225615783033603165251855960,
    2**252 + 27742317777372353535851937790883648493,
    8,
    32,
)
P448 = 2**448 - 2**224 - 1
ED448 = Edwards(
    "ed448",
    P448,
    1,
    -39081,
    224580040295924300187604334099896036246789641632564134246125461686950415467406032909029192869357953282578032075146446173674602635247710,
    298819210078481492676017930443930673437544040154080242095928241372331506189835876003536878655418784733982303233503462500531545062832660,
    2**446 - 13818066809895115352007386748515426880336692474882178609894547503885,
    4,
    57,
)


# --------------------------------------------------------------------------------------------
# ristretto255 (RFC 9496) on top of edwards25519 in extended coordinates (X:Y:Z:T)
# --------------------------------------------------------------------------------------------
class Ristretto255:
    name = "ristretto255"
    p = P25519
    n = ED25519.n
    elem_len = 32
    scalar_len = 32
    D = ED25519.d
    SQRT_M1 = pow(2, (P25519 - 1) // 4, P25519)
    SQRT_AD_MINUS_ONE = 25063068953384623474111414158702152701244531502492656460079210482610430750235
    INVSQRT_A_MINUS_D = 54469307008909316920995813868745141605393597292927456921205312896311721017578
    ONE_MINUS_D_SQ = 1159843021668779879193775521855586647937357759715417654439879720876111806838
    D_MINUS_ONE_SQ = 40440834346308536858101042469323190826248399146238708352240133220865137265952

    def __init__(self):
        self.identity = (0, 1, 1, 0)
        gx, gy = ED25519.G[0], ED25519.G[1]
        self.G = (gx, gy, 1, gx * gy % self.p)

    @staticmethod
    def _is_neg(x):
        return (x % P25519) & 1 == 1

    def _sqrt_ratio_m1(self, u, v):
        p = self.p
        v3 = v * v % p * v % p
        v7 = v3 * v3 % p * v % p
        r = u * v3 % p * pow(u * v7 % p, (p - 5) // 8, p) % p
        check = v * r % p * r % p
        correct = check == u % p
        flipped = check == (-u) % p
        flipped_i = check == (-u) * self.SQRT_M1 % p
        if flipped or flipped_i:
            r = r * self.SQRT_M1 % p
        if self._is_neg(r):
            r = (-r) % p
        return (correct or flipped), r

    def add(self, P, Q):
        p = self.p
        X1, Y1, Z1, T1 = P
        X2, Y2, Z2, T2 = Q
        A = (Y1 - X1) * (Y2 - X2) % p
        B = (Y1 + X1) * (Y2 + X2) % p
        C = T1 * 2 * self.D % p * T2 % p
        Dd = Z1 * 2 * Z2 % p
        E = (B - A) % p
        F = (Dd - C) % p
        G_ = (Dd + C) % p
        H = (B + A) % p
        return (E * F % p, G_ * H % p, F * G_ % p, E * H % p)

    def neg(self, P):
        return ((-P[0]) % self.p, P[1], P[2], (-P[3]) % self.p)

    def mul(self, P, k):
        k %= self.n
        R = self.identity
        for bit in bin(k)[2:] if k else "":
            R = self.add(R, R)
            if bit == "1":
                R = self.add(R, P)
        return R

    def eq(self, P, Q):
        p = self.p
        return (P[0] * Q[1] - P[1] * Q[0]) % p == 0 or (P[1] * Q[1] - P[0] * Q[0]) % p == 0

    def is_identity(self, P):
        return self.eq(P, self.identity)

    def encode(self, P):
        if self.is_identity(P):
            raise ValueError("identity")
        return self.encode_any(P)

    def encode_any(self, P):
        p = self.p
        x0, y0, z0, t0 = P
        u1 = (z0 + y0) * (z0 - y0) % p
        u2 = x0 * y0 % p
        _, invsqrt = self._sqrt_ratio_m1(1, u1 * u2 % p * u2 % p)
        den1 = invsqrt * u1 % p
        den2 = invsqrt * u2 % p
        z_inv = den1 * den2 % p * t0 % p
        ix0 = x0 * self.SQRT_M1 % p
        iy0 = y0 * self.SQRT_M1 % p
        enchanted = den1 * self.INVSQRT_A_MINUS_D % p
        rotate = self._is_neg(t0 * z_inv % p)
        if rotate:
            x, y, den_inv = iy0, ix0, enchanted
        else:
            x, y, den_inv = x0, y0, den2
        if self._is_neg(x * z_inv % p):
            y = (-y) % p
        s = (z0 - y) * den_inv % p
        if self._is_neg(s):
            s = (-s) % p
        return s.to_bytes(32, "little")

    def decode_any(self, b):
        p = self.p
        if len(b) != 32:
            return None
        s = int.from_bytes(b, "little")
        if s >= p or self._is_neg(s):
            return None
        ss = s * s % p
        u1 = (1 - ss) % p
        u2 = (1 + ss) % p
        u2_sqr = u2 * u2 % p
        v = (-(self.D * u1 % p * u1) - u2_sqr) % p
        was_square, invsqrt = self._sqrt_ratio_m1(1, v * u2_sqr % p)
        den_x = invsqrt * u2 % p
        den_y = invsqrt * den_x % p * v % p
        x = 2 * s * den_x % p
        if self._is_neg(x):
            x = (-x) % p
        y = u1 * den_y % p
        t = x * y % p
        if (not was_square) or self._is_neg(t) or y == 0:
            return None
        return (x, y, 1, t)

    def decode(self, b):
        P = self.decode_any(b)
        if P is None or self.is_identity(P):
            return None
        return P

    def enc_scalar(self, s):
        return (s % self.n).to_bytes(32, "little")

    def dec_scalar(self, b):
        if len(b) != 32:
            return None
        v = int.from_bytes(b, "little")
        return v if v < self.n else None


RISTRETTO255 = Ristretto255()
