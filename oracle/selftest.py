"""Pins the Python reference before any log is judged: curve sanity, RFC 9496 generator encoding,
every value of the RFC 9591 Appendix E vectors (and the big-identifier vectors), RFC 8032 verification
of the Ed25519/Ed448 vector signatures, BIP-340 vector 0 and libsecp256k1-made vectors.
A failure here is `inconclusive`, never a violation."""
import glob
import hashlib
import json
import os

from . import curves as cv
from . import frost_ref as fr

HERE = os.path.dirname(os.path.abspath(__file__))


def _check_rfc_vector(path, suite):
    d = json.load(open(path))
    n = suite.n
    g = suite.grp
    inp = d["inputs"]
    dec = suite.dec_sc
    sk = dec(bytes.fromhex(inp["group_secret_key"]))
    pk = suite.dec_el(bytes.fromhex(inp["verifying_key_key"]))
    assert sk is not None and pk is not None
    assert g.eq(suite.base_mul(sk), pk), "pk = sk*G"
    msg = bytes.fromhex(inp["message"])
    coeffs = [sk] + [dec(bytes.fromhex(c)) for c in inp["share_polynomial_coefficients"]]
    shares = {}
    for ps in inp["participant_shares"]:
        i = ps["identifier"]
        s = dec(bytes.fromhex(ps["participant_share"]))
        shares[i] = s
        assert s == sum(c * pow(i, k, n) for k, c in enumerate(coeffs)) % n, "share on polynomial"
    plist = inp["participant_list"]
    r1 = {o["identifier"]: o for o in d["round_one_outputs"]["outputs"]}
    clist = []
    nonces = {}
    for i in plist:
        o = r1[i]
        hn = suite.nonce_generate(bytes.fromhex(o["hiding_nonce_randomness"]), shares[i])
        bn = suite.nonce_generate(bytes.fromhex(o["binding_nonce_randomness"]), shares[i])
        assert suite.enc_sc(hn).hex() == o["hiding_nonce"], "hiding nonce"
        assert suite.enc_sc(bn).hex() == o["binding_nonce"], "binding nonce"
        D, E = suite.base_mul(hn), suite.base_mul(bn)
        assert suite.enc_el(D).hex() == o["hiding_nonce_commitment"]
        assert suite.enc_el(E).hex() == o["binding_nonce_commitment"]
        clist.append((i, D, E))
        nonces[i] = (hn, bn)
    clist.sort()
    for (i, inp_b) in suite.binding_factor_inputs(pk, clist, msg):
        assert inp_b.hex() == r1[i]["binding_factor_input"], "binding factor input"
    for (i, bf) in suite.compute_binding_factors(pk, clist, msg):
        assert suite.enc_sc(bf).hex() == r1[i]["binding_factor"], "binding factor"
    r2 = {o["identifier"]: o for o in d["round_two_outputs"]["outputs"]}
    zs = []
    for i in plist:
        out = suite.sign_share(i, shares[i], pk, nonces[i][0], nonces[i][1], msg, clist)
        assert suite.enc_sc(out["share"]).hex() == r2[i]["sig_share"], "sig share"
        zs.append(out["share"])
    sig = suite.aggregate(clist, msg, pk, zs)
    assert sig.hex() == d["final_output"]["sig"], "final signature"
    assert suite.verify(bytes.fromhex(inp["verifying_key_key"]), msg, sig)
    assert fr.single_signer_verify(suite.name, bytes.fromhex(inp["verifying_key_key"]), msg, sig)
    bad = bytearray(sig)
    bad[-2] ^= 1
    assert not suite.verify(bytes.fromhex(inp["verifying_key_key"]), msg, bytes(bad))
    return 1


def run():
    checked = 0
    # curve sanity
    for g in (cv.P256, cv.SECP256K1):
        assert g.is_identity(g.add(g.mul(g.G, g.n - 1), g.G)) and not g.is_identity(g.mul(g.G, g.n - 1))
        assert g.decode(g.encode(g.mul(g.G, 12345))) is not None
    for g in (cv.ED25519, cv.ED448):
        assert g.is_identity(g.mul_raw(g.G, g.n))
        assert not g.is_identity(g.mul_raw(g.G, g.n - 1))
        P = g.mul(g.G, 987654321)
        assert g.eq(g.decode(g.encode(P)), P)
    R = cv.RISTRETTO255
    assert R.encode(R.G).hex() == "e2f2ae0a6abc4e71a884a961c500515f58e30b6aa582dd8db6a65945e08d2d76"
    assert R.encode(R.mul(R.G, 2)).hex() == "6a493210f7499cd17fecb510ae0cea23a110e8d5b901f8acadd3095c73a3b919"
    assert R.is_identity(R.mul(R.G, 0)) and R.eq(R.mul(R.G, R.n + 5), R.mul(R.G, 5))
    assert (R.INVSQRT_A_MINUS_D ** 2 * (-1 - R.D) - 1) % R.p == 0
    assert R.SQRT_M1 == 19681161376707505956807079304988542015446066515923890162744021073123829784752
    assert R.eq(R.decode(R.encode(R.mul(R.G, 777))), R.mul(R.G, 777))
    # RFC 9496 A.3 a few invalid encodings
    for bad in ["00ffffffffffffffffffffffffffffffffffffffffffffffffffffffffffffff",
                "0100000000000000000000000000000000000000000000000000000000000000",
                "edffffffffffffffffffffffffffffffffffffffffffffffffffffffffffff7f",
                "26948d35ca62e643e26a83177332e6b6afeb9d08e4268b650f1f5bbd8d81d371"]:
        assert R.decode_any(bytes.fromhex(bad)) is None, bad
    checked += 1
    # RFC 9591 vectors
    for name in ["ed25519", "ed448", "p256", "ristretto255", "secp256k1"]:
        s = fr.SUITES[name]
        checked += _check_rfc_vector(os.path.join(HERE, "vectors", f"rfc9591-{name}.json"), s)
        checked += _check_rfc_vector(os.path.join(HERE, "vectors", f"rfc9591-big-identifier-{name}.json"), s)
    # RFC 8032 7.1 TEST 2 (Ed25519), one byte message
    pk = bytes.fromhex("3d4017c3e843895a92b70aa74d1b7ebc9c982ccf2ec4968cc0cd55f12af4660c")
    sig = bytes.fromhex("92a009a9f0d4cab8720e820b5f642540a2b27b5416503f8fb3762223ebdb69da"
                        "085ac1e43e15996e458f3613d0f11d8c387b2eaeb4302aeeb00d291612bb0c00")
    assert fr.ed25519_verify_strict(pk, bytes.fromhex("72"), sig)
    assert not fr.ed25519_verify_strict(pk, bytes.fromhex("73"), sig)
    checked += 1
    # BIP-340 test vector 0 and self-consistency of the reference signer, plus libsecp256k1-made vectors
    tr = fr.SUITES["secp256k1-tr"]
    pk0 = bytes.fromhex("F9308A019258C31049344F85F89D5229B531C845836F99B08601F113BCE036F9")
    sig0 = bytes.fromhex("E907831F80848D1069A5371B402410364BDF1C5F8307B0084C55F1CE2DCA8215"
                         "25F66A4A85EA8B71E482A74F382D2CE5EBEEE8FDB2172F477DF4900D310536C0")
    assert tr.bip340_verify(pk0, bytes(32), sig0), "BIP-340 vector 0"
    assert tr.bip340_sign(3, bytes(32), bytes(32)) == sig0, "BIP-340 vector 0 signing"
    checked += 1
    lib = os.path.join(HERE, "vectors", "bip340-libsecp256k1.json")
    if os.path.exists(lib):
        for v in json.load(open(lib)):
            ok = tr.bip340_verify(bytes.fromhex(v["pk"]), bytes.fromhex(v["msg"]), bytes.fromhex(v["sig"]))
            assert ok == v["valid"], "libsecp256k1 vector"
            checked += 1
    return checked


def cached(root):
    """self-test result cached on the hash of the oracle sources"""
    h = hashlib.sha256()
    for f in sorted(glob.glob(os.path.join(HERE, "*.py")) + glob.glob(os.path.join(HERE, "vectors", "*.json"))):
        h.update(open(f, "rb").read())
    stamp = os.path.join(root, "run", "oracle-selftest." + h.hexdigest()[:16])
    if os.path.exists(stamp):
        return True, "cached"
    try:
        n = run()
    except AssertionError as e:
        return False, f"assertion: {e}"
    except Exception as e:  # noqa
        return False, f"{type(e).__name__}: {e}"
    os.makedirs(os.path.dirname(stamp), exist_ok=True)
    open(stamp, "w").write(str(n))
    return True, f"{n} groups of checks"


if __name__ == "__main__":
    import time
    t = time.time()
    print("selftest ok:", run(), "in %.1fs" % (time.time() - t))
