"""Strict reference decoders (canonical, prime-order, non-identity) and generators of adversarial
encodings whose verdict the reference supplies. Everything here is derived from the standards via
curves.py; nothing is read from /repo."""
import random

from . import curves as cv
from . import frost_ref as fr


def accepts(suite_name, cls, b):
    s = fr.SUITES[suite_name]
    g = s.grp
    if cls in ("scalar", "nonzero-scalar"):
        v = g.dec_scalar(b)
        if v is None:
            return False
        return v != 0 if cls == "nonzero-scalar" else True
    if cls == "element":
        return g.decode(b) is not None
    if cls == "signature":
        if s.taproot:
            if len(b) != 64:
                return False
            if g.lift_x(int.from_bytes(b[:32], "big"), 0) is None:
                return False
            return g.dec_scalar(b[32:]) is not None
        if len(b) != g.elem_len + g.scalar_len:
            return False
        return g.decode(b[: g.elem_len]) is not None and g.dec_scalar(b[g.elem_len:]) is not None
    raise ValueError(cls)


def _scalar_cases(g, rnd):
    L = g.scalar_len
    le = not isinstance(g, cv.Weierstrass)
    order = "little" if le else "big"
    n = g.n
    out = []

    def add(why, v):
        if 0 <= v < 1 << (8 * L):
            out.append((why, v.to_bytes(L, order)))

    add("zero", 0)
    add("one", 1)
    add("two", 2)
    add("order-1", n - 1)
    add("order", n)
    add("order+1", n + 1)
    add("twice-order", 2 * n)
    add("all-ones", (1 << (8 * L)) - 1)
    for k in (8, 64, 128, 250, 252, 253, 254, 255, 256, 445, 446, 447, 448, 455, 456):
        add(f"2^{k}-1", (1 << k) - 1)
        add(f"2^{k}", 1 << k)
    nb = n.bit_length()
    for hb in range(nb, 8 * L):
        add("high-bit-set", (n - 1) | (1 << hb))
        add("high-bit-set-small", 5 | (1 << hb))
    for _ in range(40):
        add("random-valid", rnd.randrange(1, n))
        add("random-string", rnd.getrandbits(8 * L))
    if g is cv.ED448:
        for b56 in (1, 2, 0x40, 0x80, 0xff):
            v = rnd.randrange(1, n)
            raw = bytearray(v.to_bytes(57, "little"))
            raw[56] = b56
            out.append(("byte56-nonzero", bytes(raw)))
        for top in (0x40, 0x80, 0xc0):
            raw = bytearray(rnd.randrange(1, 1 << 440).to_bytes(57, "little"))
            raw[55] = top
            out.append(("byte55-high-bits", bytes(raw)))
    return out


def _torsion_points(g, rnd):
    """all points of the cofactor subgroup"""
    while True:
        b = rnd.getrandbits(8 * g.elem_len - 1).to_bytes(g.elem_len, "little")
        Q = g.decode_any(b)
        if Q is None:
            continue
        T = g.mul_raw(Q, g.n)
        # need full order h
        pts = [g.identity]
        cur = T
        while not g.is_identity(cur):
            pts.append(cur)
            cur = g.add(cur, T)
        if len(pts) == g.h:
            return pts


def _enc_any(g, P, sign_override=None):
    x, y = g.affine(P)
    L = g.elem_len
    sign = (x & 1) if sign_override is None else sign_override
    return (y | (sign << (8 * L - 1))).to_bytes(L, "little")


def _edwards_cases(g, rnd):
    out = []
    L = g.elem_len
    tors = _torsion_points(g, rnd)
    for T in tors:
        out.append(("small-order", _enc_any(g, T)))
        x, y = g.affine(T)
        out.append(("small-order-sign-flipped", _enc_any(g, T, 1 - (x & 1))))
        ylimit = (1 << (8 * L - 1)) - g.p
        if y < ylimit:
            out.append(("noncanonical-y-small-order", ((y + g.p) | ((x & 1) << (8 * L - 1))).to_bytes(L, "little")))
    for _ in range(10):
        P = g.mul(g.G, rnd.randrange(1, g.n))
        out.append(("valid", g.encode(P)))
        x, y = g.affine(P)
        out.append(("valid-sign-flipped", _enc_any(g, P, 1 - (x & 1))))  # encodes -P: valid as well
        for T in tors[1:]:
            out.append(("mixed-order", _enc_any(g, g.add(P, T))))
    # non-canonical y of arbitrary points: y in [p, 2^(8L-1)) — only a handful of residues exist
    ylimit = (1 << (8 * L - 1)) - g.p
    for y0 in range(0, min(ylimit, 40)):
        for sign in (0, 1):
            out.append(("noncanonical-y", ((y0 + g.p) | (sign << (8 * L - 1))).to_bytes(L, "little")))
            out.append(("small-y", (y0 | (sign << (8 * L - 1))).to_bytes(L, "little")))
    if g is cv.ED448:
        for _ in range(6):
            P = g.mul(g.G, rnd.randrange(1, g.n))
            raw = bytearray(g.encode(P))
            raw[56] |= rnd.choice([1, 2, 0x10, 0x40, 0x7f])
            out.append(("ed448-last-byte-low-bits", bytes(raw)))
    for _ in range(60):
        out.append(("random-string", rnd.getrandbits(8 * L).to_bytes(L, "little")))
    out.append(("all-ff", b"\xff" * L))
    out.append(("all-zero", bytes(L)))
    return out


def _ristretto_cases(g, rnd):
    out = [("identity", bytes(32)), ("all-ff", b"\xff" * 32)]
    for _ in range(12):
        P = g.mul(g.G, rnd.randrange(1, g.n))
        e = g.encode(P)
        out.append(("valid", e))
        s = int.from_bytes(e, "little")
        out.append(("negative-s", ((g.p - s) % g.p).to_bytes(32, "little")))
        if s + g.p < 1 << 256:
            out.append(("noncanonical-s", (s + g.p).to_bytes(32, "little")))
        raw = bytearray(e)
        raw[31] |= 0x80
        out.append(("high-bit-set", bytes(raw)))
    for k in range(0, 24):
        out.append(("small-s", k.to_bytes(32, "little")))
        out.append(("noncanonical-small-s", (k + g.p).to_bytes(32, "little")))
    for _ in range(150):
        out.append(("random-string", rnd.getrandbits(256).to_bytes(32, "little")))
        out.append(("random-even-below-p", (rnd.randrange(0, g.p // 2) * 2).to_bytes(32, "little")))
    return out


def _sec1_cases(g, rnd):
    out = []
    for _ in range(8):
        P = g.mul(g.G, rnd.randrange(1, g.n))
        e = g.encode(P)
        x = e[1:]
        for tag in list(range(0, 8)) + [0x0a, 0x42, 0x80, 0x82, 0x83, 0xfe, 0xff]:
            out.append((f"tag-{tag:02x}", bytes([tag]) + x))
    # x >= p and x not on the curve
    for d in range(0, 12):
        for tag in (2, 3):
            out.append(("x-not-below-p", bytes([tag]) + ((g.p + d) % (1 << 256)).to_bytes(32, "big")))
            out.append(("small-x", bytes([tag]) + d.to_bytes(32, "big")))
    for _ in range(60):
        out.append(("random-x", bytes([rnd.choice([2, 3])]) + rnd.getrandbits(256).to_bytes(32, "big")))
        out.append(("random-string", rnd.getrandbits(264).to_bytes(33, "big")))
    out.append(("all-zero", bytes(33)))
    out.append(("all-ff", b"\xff" * 33))
    return out


def gen_adversarial(suite_name, seed):
    rnd = random.Random(f"adv-{suite_name}-{seed}")
    s = fr.SUITES[suite_name]
    g = s.grp
    cases = []
    sc = _scalar_cases(g, rnd)
    if isinstance(g, cv.Weierstrass):
        el = _sec1_cases(g, rnd)
    elif g is cv.RISTRETTO255:
        el = _ristretto_cases(g, rnd)
    else:
        el = _edwards_cases(g, rnd)
    for why, b in sc:
        v = g.dec_scalar(b)
        cases.append({"cls": "scalar", "hex": b.hex(), "accept": v is not None, "zero": v == 0, "why": why})
    for why, b in el:
        cases.append({"cls": "element", "hex": b.hex(), "accept": accepts(suite_name, "element", b), "why": why})
    # signatures: every element case with a valid scalar, every scalar case with a valid element
    good_sc = g.enc_scalar(rnd.randrange(1, g.n))
    good_el = g.encode(g.mul(g.G, rnd.randrange(1, g.n)))
    for why, b in el:
        rb = b[1:] if s.taproot else b
        sig = rb + good_sc
        cases.append({"cls": "signature", "hex": sig.hex(), "accept": accepts(suite_name, "signature", sig), "why": "R-" + why})
    for why, b in sc:
        rb = good_el[1:] if s.taproot else good_el
        sig = rb + b
        cases.append({"cls": "signature", "hex": sig.hex(), "accept": accepts(suite_name, "signature", sig), "why": "z-" + why})
    for extra in (b"", b"\x00"):
        rb = good_el[1:] if s.taproot else good_el
        full = rb + good_sc
        cases.append({"cls": "signature", "hex": (full + b"\x00").hex(), "accept": False, "why": "too-long"})
        cases.append({"cls": "signature", "hex": full[:-1].hex(), "accept": False, "why": "too-short"})
    return cases
