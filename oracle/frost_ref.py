"""Independent reference for RFC 9591 (FROST) — sections 4, 5, 6, Appendix C/D — plus the
ZF-specific extras that the properties name (identifier derivation hash, DKG challenge hash,
re-randomisation hash) and the Taproot ciphersuite (BIP-340 challenge and encodings, BIP-341 tweak).

Written from the RFC / BIP text with hashlib and the big-int curve code in curves.py.
"""
import hashlib

from . import curves as cv


# ---------------------------------------------------------------- RFC 9380 hash_to_field (XMD)
def expand_message_xmd(msg, dst, length, hashfn=hashlib.sha256, b_in_bytes=32, s_in_bytes=64):
    ell = (length + b_in_bytes - 1) // b_in_bytes
    assert ell <= 255 and len(dst) <= 255
    dst_prime = dst + bytes([len(dst)])
    z_pad = bytes(s_in_bytes)
    l_i_b = length.to_bytes(2, "big")
    b0 = hashfn(z_pad + msg + l_i_b + b"\x00" + dst_prime).digest()
    bi = hashfn(b0 + b"\x01" + dst_prime).digest()
    out = bi
    for i in range(2, ell + 1):
        bi = hashfn(bytes(x ^ y for x, y in zip(b0, bi)) + bytes([i]) + dst_prime).digest()
        out += bi
    return out[:length]


def hash_to_field_xmd_sha256(msg, dst, order, L=48):
    return int.from_bytes(expand_message_xmd(msg, dst, L), "big") % order


def tagged_hash(tag, data):
    t = hashlib.sha256(tag.encode()).digest()
    return hashlib.sha256(t + t + data).digest()


# ---------------------------------------------------------------- ciphersuites
class Suite:
    name = None
    ctx = None
    grp = None
    taproot = False

    # group / scalar encodings
    def enc_el(self, P):
        return self.grp.encode(P)

    def dec_el(self, b):
        return self.grp.decode(b)

    def enc_sc(self, s):
        return self.grp.enc_scalar(s)

    def dec_sc(self, b):
        return self.grp.dec_scalar(b)

    @property
    def n(self):
        return self.grp.n

    def base_mul(self, k):
        return self.grp.mul(self.grp.G, k)

    # identifiers: RFC 9591: "encoded as scalars"; integer i -> Scalar(i)
    def enc_id(self, i):
        return self.enc_sc(i % self.n)

    # --- RFC 9591 section 4.1
    def nonce_generate(self, random_bytes, secret_scalar):
        assert len(random_bytes) == 32
        return self.H3(random_bytes + self.enc_sc(secret_scalar))

    # --- 4.2 polynomials
    def derive_interpolating_value(self, L, xi):
        L = [x % self.n for x in L]
        xi %= self.n
        assert xi in L and len(set(L)) == len(L)
        num, den = 1, 1
        for xj in L:
            if xj == xi:
                continue
            num = num * xj % self.n
            den = den * (xj - xi) % self.n
        return num * pow(den, -1, self.n) % self.n

    # --- 4.3 list operations; commitment_list = [(id_int, hiding_el, binding_el)] sorted by id
    def encode_group_commitment_list(self, clist):
        out = b""
        for (i, D, E) in clist:
            out += self.enc_id(i) + self.enc_el(D) + self.enc_el(E)
        return out

    # --- 4.4 binding factors
    def binding_factor_inputs(self, group_pk, clist, msg):
        pk_enc = self.enc_el(group_pk)
        msg_hash = self.H4(msg)
        com_hash = self.H5(self.encode_group_commitment_list(clist))
        prefix = pk_enc + msg_hash + com_hash
        return [(i, prefix + self.enc_id(i)) for (i, _, _) in clist]

    def compute_binding_factors(self, group_pk, clist, msg):
        return [(i, self.H1(inp)) for (i, inp) in self.binding_factor_inputs(group_pk, clist, msg)]

    # --- 4.5 group commitment
    def compute_group_commitment(self, clist, bfs):
        g = self.grp
        R = g.identity
        bf = dict(bfs)
        for (i, D, E) in clist:
            R = g.add(R, g.add(D, g.mul(E, bf[i])))
        return R

    # --- 4.6 challenge
    def compute_challenge(self, R, pk, msg):
        return self.H2(self.enc_el(R) + self.enc_el(pk) + msg)

    # --- 5.2 sign
    def sign_share(self, ident, sk_i, group_pk, nonce_d, nonce_e, msg, clist):
        clist = sorted(clist, key=lambda c: c[0] % self.n)
        bfs = self.compute_binding_factors(group_pk, clist, msg)
        rho = dict(bfs)[ident]
        R = self.compute_group_commitment(clist, bfs)
        lam = self.derive_interpolating_value([c[0] for c in clist], ident)
        c = self.compute_challenge(R, group_pk, msg)
        z = (nonce_d + nonce_e * rho + lam * sk_i * c) % self.n
        return {"binding_factors": bfs, "R": R, "lambda": lam, "challenge": c, "share": z}

    # --- 5.3 aggregate
    def aggregate(self, clist, msg, group_pk, shares):
        clist = sorted(clist, key=lambda c: c[0] % self.n)
        bfs = self.compute_binding_factors(group_pk, clist, msg)
        R = self.compute_group_commitment(clist, bfs)
        z = sum(shares) % self.n
        return self.enc_sig(R, z)

    def enc_sig(self, R, z):
        return self.enc_el(R) + self.enc_sc(z)

    # --- Appendix C prime-order Schnorr verification on encoded inputs
    def verify(self, pk_bytes, msg, sig_bytes):
        g = self.grp
        if len(sig_bytes) != g.elem_len + g.scalar_len:
            return False
        R = self.dec_el(sig_bytes[: g.elem_len])
        z = self.dec_sc(sig_bytes[g.elem_len:])
        pk = self.dec_el(pk_bytes)
        if R is None or z is None or pk is None:
            return False
        c = self.compute_challenge(R, pk, msg)
        lhs = g.mul(g.G, z)
        rhs = g.add(R, g.mul(pk, c))
        return g.eq(lhs, rhs)

    # single-signer prime-order Schnorr signing (Appendix C) with a given nonce
    def schnorr_sign(self, sk, msg, k):
        g = self.grp
        R = g.mul(g.G, k)
        pk = g.mul(g.G, sk)
        c = self.compute_challenge(R, pk, msg)
        z = (k + c * sk) % self.n
        return self.enc_sig(R, z)


class _Sha512LE(Suite):
    def _h(self, *parts):
        return hashlib.sha512(b"".join(parts)).digest()

    def _hs(self, *parts):
        return int.from_bytes(self._h(*parts), "little") % self.n

    def H1(self, m):
        return self._hs(self.ctx, b"rho", m)

    def H3(self, m):
        return self._hs(self.ctx, b"nonce", m)

    def H4(self, m):
        return self._h(self.ctx, b"msg", m)

    def H5(self, m):
        return self._h(self.ctx, b"com", m)

    def HDKG(self, m):
        return self._hs(self.ctx, b"dkg", m)

    def HID(self, m):
        return self._hs(self.ctx, b"id", m)

    def HRAND(self, m):
        return self._hs(self.ctx, b"randomizer", m)


class Ed25519(_Sha512LE):
    name = "ed25519"
    ctx = b"FROST-ED25519-SHA512-v1"
    grp = cv.ED25519

    def H2(self, m):
        return self._hs(m)


class Ristretto(_Sha512LE):
    name = "ristretto255"
    ctx = b"FROST-RISTRETTO255-SHA512-v1"
    grp = cv.RISTRETTO255

    def H2(self, m):
        return self._hs(self.ctx, b"chal", m)


class Ed448(Suite):
    name = "ed448"
    ctx = b"FROST-ED448-SHAKE256-v1"
    grp = cv.ED448

    def _h(self, *parts):
        return hashlib.shake_256(b"".join(parts)).digest(114)

    def _hs(self, *parts):
        return int.from_bytes(self._h(*parts), "little") % self.n

    def H1(self, m):
        return self._hs(self.ctx, b"rho", m)

    def H2(self, m):
        return self._hs(b"SigEd448" + bytes([0, 0]), m)

    def H3(self, m):
        return self._hs(self.ctx, b"nonce", m)

    def H4(self, m):
        return self._h(self.ctx, b"msg", m)

    def H5(self, m):
        return self._h(self.ctx, b"com", m)

    def HDKG(self, m):
        return self._hs(self.ctx, b"dkg", m)

    def HID(self, m):
        return self._hs(self.ctx, b"id", m)

    def HRAND(self, m):
        return self._hs(self.ctx, b"randomizer", m)


class _XmdSha256(Suite):
    def _hs(self, tag, m):
        return hash_to_field_xmd_sha256(m, self.ctx + tag, self.n)

    def _h(self, tag, m):
        return hashlib.sha256(self.ctx + tag + m).digest()

    def H1(self, m):
        return self._hs(b"rho", m)

    def H2(self, m):
        return self._hs(b"chal", m)

    def H3(self, m):
        return self._hs(b"nonce", m)

    def H4(self, m):
        return self._h(b"msg", m)

    def H5(self, m):
        return self._h(b"com", m)

    def HDKG(self, m):
        return self._hs(b"dkg", m)

    def HID(self, m):
        return self._hs(b"id", m)

    def HRAND(self, m):
        return self._hs(b"randomizer", m)


class P256(_XmdSha256):
    name = "p256"
    ctx = b"FROST-P256-SHA256-v1"
    grp = cv.P256


class Secp256k1(_XmdSha256):
    name = "secp256k1"
    ctx = b"FROST-secp256k1-SHA256-v1"
    grp = cv.SECP256K1


class Secp256k1TR(_XmdSha256):
    """RFC 9591 flow with BIP-340 conventions (as the property states them):
    challenge = BIP-340 tagged hash over x-only R and P; keys and the group commitment are
    normalised to even Y; signatures are 64 bytes (x(R) || z)."""
    name = "secp256k1-tr"
    ctx = b"FROST-secp256k1-SHA256-TR-v1"
    grp = cv.SECP256K1
    taproot = True

    def H2(self, m):
        return int.from_bytes(tagged_hash("BIP0340/challenge", m), "big") % self.n

    def compute_challenge(self, R, pk, msg):
        g = self.grp
        return self.H2(g.xbytes(R) + g.xbytes(pk) + msg)

    def enc_sig(self, R, z):
        return self.grp.xbytes(R) + self.enc_sc(z)

    # BIP-341 taproot tweak: t = hash_TapTweak(x(P) || root) ; Q = even(P) + t G
    def tap_tweak_scalar(self, P, merkle_root):
        data = self.grp.xbytes(P) + (merkle_root or b"")
        return int.from_bytes(tagged_hash("TapTweak", data), "big") % self.n

    def even(self, P):
        return P if self.grp.has_even_y(P) else self.grp.neg(P)

    def tweaked_key(self, P, merkle_root):
        g = self.grp
        t = self.tap_tweak_scalar(P, merkle_root)
        return g.add(self.even(P), g.mul(g.G, t)), t

    # BIP-340 verification (x-only public key, 64-byte signature)
    def bip340_verify(self, pkx, msg, sig):
        g = self.grp
        if len(pkx) != 32 or len(sig) != 64:
            return False
        P = g.lift_x(int.from_bytes(pkx, "big"), 0)
        r = int.from_bytes(sig[:32], "big")
        s = int.from_bytes(sig[32:], "big")
        if P is None or r >= g.p or s >= g.n:
            return False
        e = int.from_bytes(tagged_hash("BIP0340/challenge", sig[:32] + pkx + msg), "big") % g.n
        R = g.add(g.mul(g.G, s), g.neg(g.mul(P, e)))
        if g.is_identity(R):
            return False
        a = g.affine(R)
        return a[1] % 2 == 0 and a[0] == r

    def verify(self, pk_bytes, msg, sig_bytes):
        pkx = pk_bytes[1:] if len(pk_bytes) == 33 else pk_bytes
        return self.bip340_verify(pkx, msg, sig_bytes)

    # BIP-340 default signing with given aux randomness (reference signer)
    def bip340_sign(self, sk, msg, aux=bytes(32)):
        g = self.grp
        d0 = sk % g.n
        P = g.mul(g.G, d0)
        d = d0 if g.has_even_y(P) else g.n - d0
        t = (d ^ int.from_bytes(tagged_hash("BIP0340/aux", aux), "big")).to_bytes(32, "big")
        k0 = int.from_bytes(tagged_hash("BIP0340/nonce", t + g.xbytes(P) + msg), "big") % g.n
        assert k0 != 0
        R = g.mul(g.G, k0)
        k = k0 if g.has_even_y(R) else g.n - k0
        e = int.from_bytes(tagged_hash("BIP0340/challenge", g.xbytes(R) + g.xbytes(P) + msg), "big") % g.n
        return g.xbytes(R) + ((k + e * d) % g.n).to_bytes(32, "big")

    # FROST signing for the TR suite (per participant), mirroring RFC 9591 5.2 with BIP-340 tweaks:
    # key material normalised so that the group key has even Y; nonces negated when R has odd Y.
    def sign_share(self, ident, sk_i, group_pk, nonce_d, nonce_e, msg, clist):
        g = self.grp
        clist = sorted(clist, key=lambda c: c[0] % self.n)
        if not g.has_even_y(group_pk):
            group_pk = g.neg(group_pk)
            sk_i = (-sk_i) % self.n
        bfs = self.compute_binding_factors(group_pk, clist, msg)
        rho = dict(bfs)[ident]
        R = self.compute_group_commitment(clist, bfs)
        lam = self.derive_interpolating_value([c[0] for c in clist], ident)
        c = self.compute_challenge(R, group_pk, msg)
        if not g.has_even_y(R):
            nonce_d, nonce_e = (-nonce_d) % self.n, (-nonce_e) % self.n
        z = (nonce_d + nonce_e * rho + lam * sk_i * c) % self.n
        return {"binding_factors": bfs, "R": R, "lambda": lam, "challenge": c, "share": z}

    def aggregate(self, clist, msg, group_pk, shares):
        g = self.grp
        clist = sorted(clist, key=lambda c: c[0] % self.n)
        if not g.has_even_y(group_pk):
            group_pk = g.neg(group_pk)
        bfs = self.compute_binding_factors(group_pk, clist, msg)
        R = self.compute_group_commitment(clist, bfs)
        return self.enc_sig(R, sum(shares) % self.n)


SUITES = {s.name: s for s in [Ed25519(), Ristretto(), Ed448(), P256(), Secp256k1(), Secp256k1TR()]}


# ---------------------------------------------------------------- RFC 8032 Ed25519 / Ed448 verification
def ed25519_verify_strict(pk_bytes, msg, sig_bytes):
    """RFC 8032 5.1.7 with the strict checks the property names: canonical encodings,
    S < L, A and R not of small order; cofactorless equation."""
    g = cv.ED25519
    if len(pk_bytes) != 32 or len(sig_bytes) != 64:
        return False
    A = g.decode_any(pk_bytes)
    R = g.decode_any(sig_bytes[:32])
    s = int.from_bytes(sig_bytes[32:], "little")
    if A is None or R is None or s >= g.n:
        return False
    if g.is_identity(g.mul_raw(A, 8)) or g.is_identity(g.mul_raw(R, 8)):
        return False
    k = int.from_bytes(hashlib.sha512(sig_bytes[:32] + pk_bytes + msg).digest(), "little") % g.n
    return g.eq(g.mul_raw(g.G, s), g.add(R, g.mul_raw(A, k)))


def ed448_verify(pk_bytes, msg, sig_bytes, context=b""):
    """RFC 8032 5.2.7, Ed448 (phflag 0, empty context), cofactorless."""
    g = cv.ED448
    if len(pk_bytes) != 57 or len(sig_bytes) != 114:
        return False
    A = g.decode_any(pk_bytes)
    R = g.decode_any(sig_bytes[:57])
    s = int.from_bytes(sig_bytes[57:], "little")
    if A is None or R is None or s >= g.n:
        return False
    dom = b"SigEd448" + bytes([0, len(context)]) + context
    k = int.from_bytes(hashlib.shake_256(dom + sig_bytes[:57] + pk_bytes + msg).digest(114), "little") % g.n
    return g.eq(g.mul_raw(g.G, s), g.add(R, g.mul_raw(A, k)))


def single_signer_verify(suite_name, pk_bytes, msg, sig_bytes):
    """The 'ordinary single-signer verification' of C01 for each ciphersuite."""
    s = SUITES[suite_name]
    if suite_name == "ed25519":
        return ed25519_verify_strict(pk_bytes, msg, sig_bytes) and s.verify(pk_bytes, msg, sig_bytes)
    if suite_name == "ed448":
        return ed448_verify(pk_bytes, msg, sig_bytes) and s.verify(pk_bytes, msg, sig_bytes)
    return s.verify(pk_bytes, msg, sig_bytes)


# ---------------------------------------------------------------- RFC 8032 signing (reference signers for C02)
def ed25519_sign(seed, msg):
    g = cv.ED25519
    h = hashlib.sha512(seed).digest()
    a = int.from_bytes(h[:32], "little")
    a &= (1 << 254) - 8
    a |= 1 << 254
    prefix = h[32:]
    A = g.mul_raw(g.G, a)
    Ab = g.encode(A)
    r = int.from_bytes(hashlib.sha512(prefix + msg).digest(), "little") % g.n
    Rb = g.encode(g.mul_raw(g.G, r))
    k = int.from_bytes(hashlib.sha512(Rb + Ab + msg).digest(), "little") % g.n
    S = (r + k * a) % g.n
    return Ab, Rb + S.to_bytes(32, "little")


def ed448_sign(seed, msg, context=b""):
    g = cv.ED448
    h = hashlib.shake_256(seed).digest(114)
    ab = bytearray(h[:57])
    ab[0] &= 0xFC
    ab[55] |= 0x80
    ab[56] = 0
    a = int.from_bytes(ab, "little")
    prefix = h[57:]
    dom = b"SigEd448" + bytes([0, len(context)]) + context
    A = g.mul_raw(g.G, a)
    Ab = g.encode(A)
    r = int.from_bytes(hashlib.shake_256(dom + prefix + msg).digest(114), "little") % g.n
    Rb = g.encode(g.mul_raw(g.G, r))
    k = int.from_bytes(hashlib.shake_256(dom + Rb + Ab + msg).digest(114), "little") % g.n
    S = (r + k * a) % g.n
    return Ab, Rb + S.to_bytes(57, "little")
