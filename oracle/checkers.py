"""Offline checkers over the JSONL event logs written by the harness (multiprocessing)."""
import json
import multiprocessing as mp
import os

from . import frost_ref as fr

NPROC = os.cpu_count() or 4


def read_events(files, kinds=None):
    for f in files:
        suite = os.path.basename(f).split(".")[1]
        with open(f) as fh:
            for line in fh:
                line = line.strip()
                if not line:
                    continue
                e = json.loads(line)
                if kinds and e.get("k") not in kinds:
                    continue
                e["suite"] = suite
                yield e


def pmap(fn, items, chunk=8):
    if not items:
        return []
    if len(items) < 4:
        return [fn(i) for i in items]
    with mp.Pool(min(NPROC, len(items))) as pool:
        return pool.map(fn, items, chunksize=chunk)


# ---- signature verdicts (C01, C07, C10, C11, C17, C18 reuse) -------------------------------
def _judge_sig(e):
    ok = fr.single_signer_verify(e["suite"], bytes.fromhex(e["vk"]), bytes.fromhex(e["msg"]), bytes.fromhex(e["sig"]))
    return ok


def check_sigs(files, prop, monitor="signature-rejected", more="python-reference"):
    evs = list(read_events(files, {"sig"}))
    res = pmap(_judge_sig, evs)
    viols, per_suite = [], {}
    for e, ok in zip(evs, res):
        per_suite[e["suite"]] = per_suite.get(e["suite"], 0) + 1
        if not ok:
            viols.append({"signature": f"{prop}/{monitor}/{e['suite']}/{more}", "suite": e["suite"], "item": e.get("item", 0),
                          "desc": "python single-signer verifier rejects", "detail": {k: e[k] for k in ("vk", "msg", "sig", "tag") if k in e}})
    return viols, {"counts": {"python_sigs_judged": len(evs)}, "summary": {"python_sigs_per_suite": per_suite}}


# ---- generic event checker plumbing -----------------------------------------------------------
def _run(files, kinds, fn, prop, count_key):
    evs = list(read_events(files, kinds))
    res = pmap(fn, evs)
    viols, per_suite = [], {}
    for e, r in zip(evs, res):
        per_suite[e["suite"]] = per_suite.get(e["suite"], 0) + 1
        for (monitor, more, detail) in r:
            viols.append({"signature": f"{prop}/{monitor}/{e['suite']}/{more}", "suite": e["suite"], "item": e.get("item", 0),
                          "desc": "python reference disagrees", "detail": detail})
    return viols, {"counts": {count_key: len(evs)}, "summary": {count_key + "_per_suite": per_suite}}


def merge_results(*results):
    viols, counts, summary, classes = [], {}, {}, []
    for v, st in results:
        viols.extend(v)
        for k, n in st.get("counts", {}).items():
            counts[k] = counts.get(k, 0) + n
        summary.update(st.get("summary", {}))
        classes.extend(st.get("classes", []))
    return viols, {"counts": counts, "summary": summary, "classes": classes}


# ---- C12: sampled decoder verdicts ---------------------------------------------------------------
def _judge_dec(e):
    from . import decode_ref
    cls = e["cls"]
    ref = decode_ref.accepts(e["suite"], cls, bytes.fromhex(e["hex"]))
    if ref != e["accepted"]:
        return [("decoder-disagrees-with-reference", f"{e['type']}/sampled", {"type": e["type"], "input": e["hex"], "library_accepts": e["accepted"], "reference_accepts": ref})]
    return []


def check_dec(files, prop="C12"):
    return _run(files, {"dec"}, _judge_dec, prop, "python_decoder_verdicts")


# ---- C06: polynomial identity of dealer output -----------------------------------------------------
def _judge_vss(e):
    s = fr.SUITES[e["suite"]]
    g = s.grp
    out = []
    ids = [s.dec_sc(bytes.fromhex(x)) for x in e["ids"]]
    shares = [s.dec_sc(bytes.fromhex(x)) for x in e["shares"]]
    comm = [s.dec_el(bytes.fromhex(x)) for x in e["commitment"]]
    key = s.dec_sc(bytes.fromhex(e["key"]))
    if None in ids or None in shares or None in comm or key is None:
        return [("share-off-committed-polynomial", "python-undecodable", {"event": e})]
    if not g.eq(comm[0], s.base_mul(key)) or s.enc_el(comm[0]).hex() != e["vk"]:
        out.append(("dealer-output-inconsistent", "python-constant-term", {"vk": e["vk"]}))
    for i, sh in zip(ids, shares):
        rhs = g.identity
        for k, ck in enumerate(comm):
            rhs = g.add(rhs, g.mul(ck, pow(i, k, s.n)))
        if not g.eq(s.base_mul(sh), rhs):
            out.append(("share-off-committed-polynomial", "python", {"id": hex(i)}))
    t = len(comm)
    xs, ys = ids[:t], shares[:t]
    acc = 0
    for a in range(t):
        acc = (acc + ys[a] * s.derive_interpolating_value(xs, xs[a])) % s.n
    if acc != key:
        out.append(("t-shares-do-not-reconstruct", "python", {}))
    return out


def check_vss(files, prop="C06"):
    return _run(files, {"vss"}, _judge_vss, prop, "python_dealer_outputs")


# ---- C07: DKG output ---------------------------------------------------------------------------------
def _judge_dkg(e):
    s = fr.SUITES[e["suite"]]
    g = s.grp
    out = []
    c0 = [s.dec_el(bytes.fromhex(x)) for x in e["c0"]]
    ids = [s.dec_sc(bytes.fromhex(x)) for x in e["ids"]]
    coeffs = [[s.dec_sc(bytes.fromhex(c)) for c in row] for row in e["coeffs"]]
    P = g.identity
    for c in c0:
        P = g.add(P, c)
    tweak = 0
    negate = False
    if s.taproot:
        negate = not g.has_even_y(P)
        Q, tweak = s.tweaked_key(P, None)
    else:
        Q = P
    if s.enc_el(Q).hex() != e["vk"]:
        out.append(("group-key-wrong", "python", {"got": e["vk"], "want": s.enc_el(Q).hex()}))
    for idx, i in enumerate(ids):
        sh = sum(sum(c * pow(i, k, s.n) for k, c in enumerate(row)) for row in coeffs) % s.n
        if negate:
            sh = (-sh) % s.n
        sh = (sh + tweak) % s.n
        if s.enc_sc(sh).hex() != e["shares"][idx]:
            out.append(("share-off-summed-polynomial", "python", {"id": e["ids"][idx]}))
        if s.enc_el(s.base_mul(sh)).hex() != e["vshares"][idx]:
            out.append(("dkg-output-inconsistent", "python-verifying-share", {"id": e["ids"][idx]}))
    return out


def check_dkg(files, prop="C07"):
    return _run(files, {"dkg"}, _judge_dkg, prop, "python_dkg_outputs")


# ---- C15: nonce derivation -----------------------------------------------------------------------------
def _judge_nonce(e):
    s = fr.SUITES[e["suite"]]
    out = []
    share = bytes.fromhex(e["share"])
    for which, rk, nk, ck in (("hiding", "rand_h", "hiding", "ch"), ("binding", "rand_b", "binding", "cb")):
        want = s.H3(bytes.fromhex(e[rk]) + share)
        if s.enc_sc(want).hex() != e[nk]:
            out.append(("nonce-derivation", f"python-{which}", {"share": e["share"], "random": e[rk], "got": e[nk], "want": s.enc_sc(want).hex()}))
        if s.enc_el(s.base_mul(want)).hex() != e[ck]:
            out.append(("commitment-not-generator-times-nonce", f"python-{which}", {"got": e[ck]}))
    return out


def check_nonce(files, prop="C15"):
    return _run(files, {"nonce"}, _judge_nonce, prop, "python_nonce_pairs")


# ---- C17: randomizer derivation ----------------------------------------------------------------------------
def _judge_randomizer(e):
    s = fr.SUITES[e["suite"]]
    want = s.HRAND(bytes.fromhex(e["seed"]) + bytes.fromhex(e["commitment_list"]))
    if s.enc_sc(want).hex() != e["randomizer"]:
        return [("randomizer-derivation", "python", {"seed": e["seed"], "got": e["randomizer"], "want": s.enc_sc(want).hex()})]
    return []


def check_randomizer(files, prop="C17"):
    return _run(files, {"randomizer"}, _judge_randomizer, prop, "python_randomizers")


# ---- C18: BIP-341 output key and BIP-340 verification --------------------------------------------------------
def _judge_taproot(e):
    s = fr.SUITES["secp256k1-tr"]
    g = s.grp
    out = []
    P = g.decode(bytes.fromhex(e["internal_key"]))
    root = bytes.fromhex(e["merkle_root"]) if e.get("merkle_root") is not None else None
    if e["tweaked"]:
        Q, _ = s.tweaked_key(P, root)
    else:
        Q = P
    qx = g.xbytes(Q)
    if qx.hex() != e["output_key_x"]:
        out.append(("output-key-wrong", "python-bip341", {"got": e["output_key_x"], "want": qx.hex()}))
    if not s.bip340_verify(qx, bytes.fromhex(e["msg"]), bytes.fromhex(e["sig"])):
        out.append(("bip340-rejected", "python", {"q": qx.hex(), "sig": e["sig"], "msg": e["msg"]}))
    if e["tweaked"] and s.bip340_verify(g.xbytes(P), bytes.fromhex(e["msg"]), bytes.fromhex(e["sig"])):
        out.append(("verifies-under-untweaked-key", "python", {}))
    return out


def check_taproot(files, prop="C18"):
    return _run(files, {"taproot"}, _judge_taproot, prop, "python_taproot_sessions")
