"""Offline checkers over the JSONL event logs written by the harness (multiprocessing)."""
import json
import multiprocessing as mp
import os

from . import frost_ref as fr

NPROC = os.cpu_count() or 4


def read_events(files, kinds=None):
    for f in files:
        suite = os.path.basename(f).split(".")[1]
        with open(f) as fh:
            for line in fh:
                line = line.strip()
                if not line:
                    continue
                e = json.loads(line)
                if kinds and e.get("k") not in kinds:
                    continue
                e["suite"] = suite
                yield e


def pmap(fn, items, chunk=8):
    if not items:
        return []
    if len(items) < 4:
        return [fn(i) for i in items]
    with mp.Pool(min(NPROC, len(items))) as pool:
        return pool.map(fn, items, chunksize=chunk)


# ---- signature verdicts (C01, C07, C10, C11, C17, C18 reuse) -------------------------------
def _judge_sig(e):
    ok = fr.single_signer_verify(e["suite"], bytes.fromhex(e["vk"]), bytes.fromhex(e["msg"]), bytes.fromhex(e["sig"]))
    return ok


def check_sigs(files, prop, monitor="signature-rejected", more="python-reference"):
    evs = list(read_events(files, {"sig"}))
    res = pmap(_judge_sig, evs)
    viols, per_suite = [], {}
    for e, ok in zip(evs, res):
        per_suite[e["suite"]] = per_suite.get(e["suite"], 0) + 1
        if not ok:
            viols.append({"signature": f"{prop}/{monitor}/{e['suite']}/{more}", "suite": e["suite"], "item": e.get("item", 0),
                          "desc": "python single-signer verifier rejects", "detail": {k: e[k] for k in ("vk", "msg", "sig", "tag") if k in e}})
    return viols, {"counts": {"python_sigs_judged": len(evs)}, "summary": {"python_sigs_per_suite": per_suite}}
