"""C02: re-derive every recorded value of a signing session from (key shares, random bytes, message)
with the independent reference and compare byte for byte; reference signers for the single-signer clause."""
import random

from . import frost_ref as fr
from .checkers import _run, check_sigs, merge_results


def _judge_session(e):
    s = fr.SUITES[e["suite"]]
    g = s.grp
    out = []

    def bad(stage, **kw):
        out.append(("bit-exact", stage, dict(kw, n=e["n"], t=e["t"], ids=e["ids"], keys=e["keys"])))

    msg = bytes.fromhex(e["msg"])
    vk = s.dec_el(bytes.fromhex(e["vk"]))
    if vk is None:
        return [("bit-exact", "group-key-undecodable", {"vk": e["vk"]})]
    signers = []
    for sg in e["signers"]:
        i = s.dec_sc(bytes.fromhex(sg["id"]))
        share = s.dec_sc(bytes.fromhex(sg["share"]))
        if i is None or share is None:
            return [("bit-exact", "undecodable", {"signer": sg["id"]})]
        if s.enc_id(i).hex() != sg["id"]:
            bad("identifier-encoding", id=sg["id"])
        hn = s.nonce_generate(bytes.fromhex(sg["rand_h"]), share)
        bn = s.nonce_generate(bytes.fromhex(sg["rand_b"]), share)
        if s.enc_sc(hn).hex() != sg["hiding"]:
            bad("hiding-nonce", id=sg["id"], want=s.enc_sc(hn).hex(), got=sg["hiding"])
        if s.enc_sc(bn).hex() != sg["binding"]:
            bad("binding-nonce", id=sg["id"], want=s.enc_sc(bn).hex(), got=sg["binding"])
        D, E = s.base_mul(hn), s.base_mul(bn)
        if s.enc_el(D).hex() != sg["ch"] or s.enc_el(E).hex() != sg["cb"]:
            bad("nonce-commitment", id=sg["id"])
        signers.append({"i": i, "share": share, "hn": hn, "bn": bn, "D": D, "E": E, "log": sg})
    clist = sorted([(x["i"], x["D"], x["E"]) for x in signers], key=lambda c: c[0])
    enc = s.encode_group_commitment_list(clist)
    if enc.hex() != e["commitment_list"]:
        bad("commitment-list-encoding", want=enc.hex()[:200], got=e["commitment_list"][:200])
    if [s.enc_id(c[0]).hex() for c in clist] != e["commitment_list_order"]:
        bad("commitment-list-order", want=[s.enc_id(c[0]).hex() for c in clist], got=e["commitment_list_order"])
    pk_eff = vk
    if s.taproot and not g.has_even_y(vk):
        pk_eff = g.neg(vk)
    inputs = dict(s.binding_factor_inputs(pk_eff, clist, msg))
    bfs = s.compute_binding_factors(pk_eff, clist, msg)
    bfd = dict(bfs)
    for x in signers:
        if inputs[x["i"]].hex() != x["log"]["binding_factor_input"]:
            bad("binding-factor-input", id=x["log"]["id"], want=inputs[x["i"]].hex()[:300], got=x["log"]["binding_factor_input"][:300])
        if s.enc_sc(bfd[x["i"]]).hex() != x["log"]["binding_factor"]:
            bad("binding-factor", id=x["log"]["id"])
    R = s.compute_group_commitment(clist, bfs)
    if s.enc_el(R).hex() != e["group_commitment"]:
        bad("group-commitment", want=s.enc_el(R).hex(), got=e["group_commitment"])
    c = s.compute_challenge(R, pk_eff, msg)
    if s.enc_sc(c).hex() != e["challenge"]:
        bad("challenge", want=s.enc_sc(c).hex(), got=e["challenge"])
    zs = []
    for x in signers:
        r = s.sign_share(x["i"], x["share"], vk, x["hn"], x["bn"], msg, clist)
        if s.enc_sc(r["lambda"]).hex() != x["log"]["lambda"]:
            bad("interpolation-coefficient", id=x["log"]["id"])
        if s.enc_sc(r["share"]).hex() != x["log"]["sig_share"]:
            bad("signature-share", id=x["log"]["id"], want=s.enc_sc(r["share"]).hex(), got=x["log"]["sig_share"])
        zs.append(r["share"])
    sig = s.aggregate(clist, msg, vk, zs)
    if sig.hex() != e["sig"]:
        bad("final-signature", want=sig.hex(), got=e["sig"])
    if not fr.single_signer_verify(e["suite"], bytes.fromhex(e["vk"]), msg, bytes.fromhex(e["sig"])):
        bad("final-signature-rejected-by-single-signer-verifier", sig=e["sig"])
    return out


def _judge_derive(e):
    s = fr.SUITES[e["suite"]]
    want = s.HID(bytes.fromhex(e["input"]))
    if s.enc_sc(want).hex() != e["id"]:
        return [("bit-exact", "derived-identifier", {"input": e["input"], "got": e["id"], "want": s.enc_sc(want).hex()})]
    return []


def check(files, prop="C02"):
    a = _run(files, {"session"}, _judge_session, prop, "python_sessions_rederived")
    b = _run(files, {"derive-id"}, _judge_derive, prop, "python_derived_identifiers")
    c = check_sigs(files, prop, "single-signer", "reference-rejects-library-signature")
    return merge_results(a, b, c)


def gen_reference_signatures(suite_name, seed, count):
    """signatures made by the reference signers (RFC 8032 for the Edwards suites, BIP-340 for Taproot,
    RFC 9591 Appendix C prime-order Schnorr otherwise); every other one is followed by an altered copy"""
    rnd = random.Random(f"refsig-{suite_name}-{seed}")
    s = fr.SUITES[suite_name]
    g = s.grp
    out = []
    lens = [0, 1, 31, 32, 33, 64, 65, 127, 128, 129, 200]
    for i in range(count):
        msg = rnd.randbytes(lens[i % len(lens)])
        if suite_name == "ed25519" and i % 2 == 0:
            vk, sig = fr.ed25519_sign(rnd.randbytes(32), msg)
            signer = "rfc8032-ed25519"
        elif suite_name == "ed448" and i % 2 == 0:
            vk, sig = fr.ed448_sign(rnd.randbytes(57), msg)
            signer = "rfc8032-ed448"
        elif suite_name == "secp256k1-tr":
            sk = rnd.randrange(1, g.n)
            P = g.mul(g.G, sk)
            vk = g.encode(P)  # either parity: the library must treat the key as x-only
            sig = s.bip340_sign(sk, msg, rnd.randbytes(32))
            signer = "bip340-reference"
        else:
            sk = rnd.randrange(1, g.n)
            vk = s.enc_el(s.base_mul(sk))
            sig = s.schnorr_sign(sk, msg, rnd.randrange(1, g.n))
            signer = "rfc9591-prime-order-schnorr"
        out.append({"vk": vk.hex(), "msg": msg.hex(), "sig": sig.hex(), "valid": True, "signer": signer})
        if i % 2 == 1:
            bad = bytearray(sig)
            zpos = len(bad) - 2
            bad[zpos] ^= 0x01
            out.append({"vk": vk.hex(), "msg": msg.hex(), "sig": bytes(bad).hex(), "valid": False, "signer": signer})
            out.append({"vk": vk.hex(), "msg": (msg + b"x").hex(), "sig": sig.hex(), "valid": False, "signer": signer})
    return out
