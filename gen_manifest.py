#!/usr/bin/env python3
"""Writes MANIFEST.json from props.py (single source of truth) and validates it."""
import json, os, sys
ROOT = os.path.dirname(os.path.abspath(__file__))
sys.path.insert(0, ROOT)
from props import PROPS, MANIFEST_TEXT

ALL = [json.loads(l)["id"] for l in open(os.path.join(ROOT, "properties.jsonl"))]
checks = []
for pid in ALL:
    if pid not in PROPS:
        continue
    t = MANIFEST_TEXT[pid]
    checks.append({
        "property_id": pid,
        "quick_cmd": f"./check.py {pid} quick",
        "thorough_cmd": f"./check.py {pid} thorough",
        "evidence_file": f"/verif/evidence/{pid}.json",
        "replay_cmd_template": f"./check.py {pid} --replay {{path}}",
        "engine": "fv",
        "level_claimed": {"category": PROPS[pid]["level"], "text": t["text"], "design_ref": f"DESIGN.md section 6, {pid}"},
        "level_note": t["note"],
        "technique": t["technique"],
    })
na = [{"property_id": p, "reason": "check under construction in this session; will be claimed once its monitor is committed (DESIGN.md section 6)"} for p in ALL if p not in PROPS]
m = {
    "version": 1,
    "setup_cmd": "./check.py --build",
    "hooks": {
        "guard": "frost_verif",
        "enable": "none needed: the harness observes at the public API, through frost-core's own cargo feature `internals`, a caller-supplied recording RNG and its own global allocator; no source hooks exist in /repo",
        "baseline_off_cmd": "cd /repo && cargo test --workspace --no-fail-fast --offline",
        "source_commits": [],
        "add_only": True,
    },
    "engines": [{"name": "fv", "path": "/verif/harness", "serves_properties": [c["property_id"] for c in checks],
                 "kind_free_text": "Rust harness driving the real library under seeded hostile workloads with in-process monitors; Python reference oracle (oracle/) judges recorded event logs offline; check.py merges verdicts"}],
    "checks": checks,
    "not_applicable": na,
    "notes": "Runtime monitoring only. exit 2 = INCONCLUSIVE (build failure, oracle self-test failure, watchdog, observation minimum not met) and is never reported as a violation. Known findings: known_findings.json (five genuine defects of the pinned tree were repaired with 'fix:' commits in /repo - 93121b9, 71f2b86, 3afb03d, 4a9381a, 316fff7 - and are listed there as fixed; there are no open known findings). Every check alternates its shards between two builds (release with debug assertions and overflow checks / plain release) and between processes that did or did not use another ciphersuite first; both are recorded in each violation and used on replay. seeded/ holds 162 confirmed breaking changes with the checks that catch them (DESIGN.md section 13), mutation/ a 259-mutant sweep (section 15).",
}
json.dump(m, open(os.path.join(ROOT, "MANIFEST.json"), "w"), indent=1)
try:
    import jsonschema
    jsonschema.validate(m, json.load(open("/root/.vp/MANIFEST.schema.json")))
    print("MANIFEST.json valid;", len(checks), "checks,", len(na), "not_applicable")
except ImportError:
    print("written (jsonschema not importable here)")
