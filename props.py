"""Per-property configuration for check.py: level, rule text, evaluation keys, observation minimum,
offline checker, assumptions; and the texts that go into MANIFEST.json."""
import glob
import json
import os

from oracle import checkers as ck

COMMON_ASSUME = [
    "the dependency curve crates (curve25519-dalek, ed448-goldilocks, p256, k256) serve as calculators for the in-harness oracles; the Python reference (oracle/, pinned to the RFC 9591 Appendix E vectors, RFC 8032 and BIP-340 vectors) shares no code with them",
    "workloads are seeded by VERIF_SEED; 'held' means no refutation event on the executions listed, not a proof",
    "events of negligible probability (random collisions, a hash output of zero, a 2^-128 batch false accept) are not modelled",
]
TR_ONLY = ["secp256k1-tr"]


def extra_builds(build):
    """setup: also build the C20 probe in the three profiles it compares"""
    import os
    if not os.path.exists(os.path.join(os.path.dirname(os.path.abspath(__file__)), "harness", "src", "bin", "zprobe.rs")):
        return True
    ok, _ = build(profiles=("dev", "release", "verif"), bins=("zprobe",), parallel=True)
    # C15 / C16 also run in the plain release profile
    ok2, _ = build(profiles=("release",), bins=("fv",))
    return ok and ok2


def _min_counts(**need):
    def f(m, tier):
        for k, (q, t) in need.items():
            want = q if tier == "quick" else t
            have = m["counts"].get(k, 0)
            if have < want:
                return f"{k}={have} < {want}"
        return None
    return f


def _all(*fs):
    def f(m, tier):
        for g in fs:
            r = g(m, tier)
            if r:
                return r
        return None
    return f


def _py(*fns):
    def run(files, tier, seed, out):
        return ck.merge_results(*[fn(files) for fn in fns])
    return run


def _c12_pregen(outdir, tier, seed):
    from oracle import decode_ref
    for s in ["ed25519", "ristretto255", "ed448", "p256", "secp256k1", "secp256k1-tr"]:
        with open(os.path.join(outdir, f"adversarial.{s}.json"), "w") as f:
            json.dump(decode_ref.gen_adversarial(s, seed), f)


def _c02_pregen(outdir, tier, seed):
    from oracle import check_c02
    for s in ["ed25519", "ristretto255", "ed448", "p256", "secp256k1", "secp256k1-tr"]:
        n = (10 if s == "ed448" else 24) if tier == "quick" else (60 if s == "ed448" else 200)
        with open(os.path.join(outdir, f"refsigs.{s}.json"), "w") as f:
            json.dump(check_c02.gen_reference_signatures(s, seed, n), f)


def _c02_py(files, tier, seed, out):
    from oracle import check_c02
    return check_c02.check(files, "C02")


def _c14_miri(tier, seed, outdir, harness, target):
    """Supplementary (thorough only): a handful of C14 items re-executed under Miri with interpreter-sized budgets
    (FV_TINY). Only an `Undefined Behavior` report counts; unsupported operations, timeouts or a missing Miri are
    recorded in the evidence and never affect the verdict."""
    import re
    import subprocess
    import time
    if tier != "thorough":
        return [], {"miri": "thorough tier only"}
    # item numbers are positions in C14's deterministic item list: 1 + 8*type + chunk (thorough has 8 chunks per type)
    picks = [("ed25519", 1 + 8 * 0), ("ed25519", 1 + 8 * 5), ("ed25519", 1 + 8 * 15), ("ed25519", 1 + 8 * 19), ("ed25519", 1 + 8 * 20),
             ("p256", 1 + 8 * 2), ("p256", 1 + 8 * 17), ("secp256k1-tr", 1 + 8 * 5), ("ristretto255", 1 + 8 * 18), ("ed448", 1 + 8 * 3),
             ("ed25519", 1 + 8 * 24), ("secp256k1", 1 + 8 * 24 + 6 * 2)]
    env = dict(os.environ)
    env.update({"MIRIFLAGS": "-Zmiri-disable-isolation", "FV_TINY": "480", "CARGO_TARGET_DIR": os.path.join(target, "miri"), "CARGO_NET_OFFLINE": "true"})
    mdir = os.path.join(outdir, "miri")
    os.makedirs(mdir, exist_ok=True)
    b = subprocess.run(["cargo", "+nightly", "miri", "build", "--offline", "--bin", "fv"], cwd=harness, env=env, stdout=subprocess.PIPE, stderr=subprocess.STDOUT, text=True)
    if b.returncode != 0:
        # `miri build` is not available in every toolchain; fall back to letting the first run build
        pass
    procs = []
    t0 = time.time()
    for suite, item in picks:
        log = open(os.path.join(mdir, f"{suite}.{item}.log"), "w")
        cmd = ["cargo", "+nightly", "miri", "run", "--offline", "--bin", "fv", "--", "C14", "--suite", suite, "--tier", "thorough", "--seed", str(seed),
               "--only-item", str(item), "--out", os.path.join(mdir, f"{suite}.{item}")]
        procs.append((suite, item, subprocess.Popen(cmd, cwd=harness, env=env, stdout=log, stderr=subprocess.STDOUT), log))
        time.sleep(2 if len(procs) > 1 else 240 if b.returncode != 0 else 2)
    viols, stats = [], {"clean": 0, "ub": 0, "other": [], "decodes": 0}
    for suite, item, p, log in procs:
        try:
            rc = p.wait(timeout=max(60, 1200 - (time.time() - t0)))
        except subprocess.TimeoutExpired:
            p.kill()
            rc = None
        log.close()
        txt = open(os.path.join(mdir, f"{suite}.{item}.log")).read()
        if "Undefined Behavior" in txt:
            frames = re.findall(r"(frost[-_][a-z0-9_-]+/src/[a-z0-9_/]+\.rs:\d+)", txt)
            viols.append({"signature": f"C14/miri-undefined-behaviour/{suite}/{frames[0] if frames else 'no-frost-frame'}", "suite": suite, "item": item,
                          "desc": "Miri reported undefined behaviour", "detail": {"report": txt[txt.find('Undefined Behavior') - 200:][:3000]}})
            stats["ub"] += 1
        elif rc == 0:
            stats["clean"] += 1
            try:
                r = json.load(open(glob.glob(os.path.join(mdir, f"{suite}.{item}", "*.json"))[0]))
                stats["decodes"] += r["counts"].get("binary_decodes", 0) + r["counts"].get("protocol_calls", 0) - r["counts"].get("skipped_after_interpreter_budget", 0)
                stats["skipped_after_budget"] = stats.get("skipped_after_budget", 0) + r["counts"].get("skipped_after_interpreter_budget", 0)
                for v in r["violations"]:
                    viols.append(v)
            except Exception:
                pass
        else:
            stats["other"].append({"suite": suite, "item": item, "rc": rc, "tail": txt[-300:]})
    stats["wall_s"] = round(time.time() - t0)
    return viols, {"miri": stats}


def _c13_second_phase(prop, tier, seed, outdir, fv, limit_child, prelude):
    """every state file written by a shard is resumed in a fresh process with the *opposite* history
    (saver used another ciphersuite first -> resumer does not, and vice versa)"""
    import subprocess
    import time
    t0 = time.time()
    results, dead, procs = [], [], []
    for k, f in enumerate(sorted(glob.glob(os.path.join(outdir, "C13.xproc.*.json")))):
        st = json.load(open(f))
        # the resuming process also comes from the other build profile
        target = os.path.dirname(os.path.dirname(fv))
        rprof = "verif" if st.get("saver_profile") == "release" else "release"
        rbin = os.path.join(target, "p-release", "release", "fv") if rprof == "release" else fv
        if not os.path.exists(rbin):
            rbin, rprof = fv, "verif"
        cmd = [rbin, prop, "--suite", st["suite"], "--tier", tier, "--seed", str(seed), "--out", outdir, "--shard", f"{900 + k}/1000", "--resume", f]
        if not st.get("saver_prelude"):
            cmd += ["--prelude", prelude[st["suite"]]]
        procs.append((st["suite"], 900 + k, subprocess.Popen(cmd, stdout=subprocess.DEVNULL, stderr=subprocess.DEVNULL, preexec_fn=limit_child, env=dict(os.environ, FV_PROFILE_NAME=rprof))))
    for s, k, p in procs:
        try:
            rc = p.wait(timeout=600)
        except subprocess.TimeoutExpired:
            p.kill()
            rc = None
        rf = os.path.join(outdir, f"{prop}.{s}.{k}.json")
        if rc == 0 and os.path.exists(rf):
            results.append(json.load(open(rf)))
        else:
            dead.append({"suite": s, "shard": k, "why": "died", "rc": rc, "wal": None, "stderr": ""})
    return results, dead, time.time() - t0


def _c18_min(m, tier):
    if m["counts"].get("cells_unfilled", 0) > 0:
        return f"{m['counts']['cells_unfilled']} parity cells not observed often enough"
    return None


def _c14_min(m, tier):
    if m["counts"].get("control_panic_caught", 0) < 6:
        return "panic control did not fire in every suite"
    return None


def _c19_min(m, tier):
    if m["counts"].get("control_constant_rng_accepts_pair", 0) < 1:
        return "constant-RNG control never accepted a complementary pair (workload would not expose reused blinders)"
    return None


PROPS = {
    "C01": {
        "level": "exploration", "eval_keys": ["sessions_judged"],
        "rule": "one evaluation = one honest signing session (keygen source x shape x identifier kind x signer subset x message) taken to aggregate and judged by library verify, the independent in-harness verifier, ed25519-dalek verify_strict / libsecp256k1 where they exist, and (sampled) the Python reference; distinct = distinct (n,t,identifier kind,key source,|S| class,message class) tuples that reached every verifier",
        "python": lambda f, t, s, o: ck.check_sigs(f, "C01"),
        "minimum": _min_counts(sessions_judged=(2500, 20000), python_sigs_judged=(600, 1500), signer_set_non_prefix=(500, 5000)),
        "assumptions": COMMON_ASSUME + ["secret keys, polynomials and nonces are sampled, not enumerated"],
    },
    "C02": {
        "level": "exploration", "eval_keys": ["python_sessions_rederived", "identifier_encodings", "reference_signatures_checked", "single_signer_signatures"],
        "rule": "evaluations = signing sessions whose every recorded value (nonces from the drawn bytes, commitments, commitment-list encoding and order, binding-factor inputs and values, group commitment, challenge, interpolation coefficients, signature shares, final signature) was re-derived by the Python reference from the key shares, random bytes and message and compared byte for byte + all 65 535 u16 identifier encodings (exhaustive) + single-signer signatures exchanged with independent signers/verifiers in both directions; distinct = (identifier kind, key source, signer-count class, |S| class, message class)",
        "python": _c02_py, "pregen": _c02_pregen,
        "minimum": _min_counts(python_sessions_rederived=(600, 4000), identifier_encodings=(393210, 393210), reference_signatures_checked=(250, 1500), python_sigs_judged=(150, 1000)),
        "assumptions": COMMON_ASSUME + ["the reference is pinned by oracle/selftest.py to every value of the RFC 9591 Appendix E vectors, RFC 8032 and BIP-340 vectors before any log is judged", "Taproot: RFC 9591 flow with BIP-340 challenge, x-only encodings and even-Y normalisation, written from the BIPs"],
    },
    "C03": {
        "level": "exploration", "eval_keys": ["sub_threshold_sets"],
        "rule": "one evaluation = one holder set of size 1..t-1 driven through sign / aggregate (3 modes) / reconstruct with honest, lowered and absent thresholds, plain and re-randomized, plus the assembled (R, sum z) judged by the independent verifier; distinct = (n,t,k,key source,identifier kind)",
        "minimum": _min_counts(sub_threshold_sets=(1500, 10000), degree_upper_checks=(300, 1500), assembled_candidates_judged=(1500, 10000)),
        "assumptions": COMMON_ASSUME + ["decides the mechanical threshold enforcement the property names, not cryptographic unforgeability"],
    },
    "C04": {
        "level": "fault_enumeration", "eval_keys": ["alterations"],
        "rule": "one evaluation = one set of submitted shares (every non-empty cheater subset of a signer set x alteration kind, plus cancelling pairs/triples at every position) judged in 3 detection modes and by standalone share verification; distinct = (|S|, |X|, kind, plain/re-randomized, Taproot R parity)",
        "exhaustive": False,
        "minimum": _min_counts(alterations=(9000, 60000), share_verifications=(30000, 200000)),
        "assumptions": COMMON_ASSUME + ["cheater subsets are exhaustive per signer set; signer sets and shapes are sampled"],
    },
    "C05": {
        "level": "fault_enumeration", "eval_keys": ["aggregate_verdicts", "substitution_share_verdicts", "claimed_identifier_verdicts"],
        "rule": "one evaluation = one verdict of aggregate / verify_signature_share on a package-and-shares filling taken from two concurrent sessions (exhaustive 2^k commitment fillings x 2^k share fillings) or on a single-field substitution of the package; distinct = (|S|, session-B kind, #B commitment slots, #B share slots) and substitution classes",
        "minimum": _min_counts(aggregate_verdicts=(3000, 20000), substitution_share_verdicts=(1500, 8000)),
        "assumptions": COMMON_ASSUME + ["that every field is *hashed* into the binding factor is decided by C02, not here"],
    },
    "C06": {
        "level": "exploration", "eval_keys": ["shares_checked", "tamperings", "reconstructions", "parameter_pairs"],
        "rule": "evaluations = dealer shares checked against the polynomial identity + single-coordinate tamperings + t-subset reconstructions + parameter pairs; distinct = (n,t,identifier kind,key kind) and tampering classes per threshold",
        "python": lambda f, t, s, o: ck.check_vss(f, "C06"),
        "minimum": _min_counts(shares_checked=(1500, 10000), tamperings=(20000, 100000), parameter_pairs=(300, 300)),
        "assumptions": COMMON_ASSUME + ["the coefficient sampler is not modelled (C16 covers it)"],
    },
    "C07": {
        "level": "exploration", "eval_keys": ["participants_checked", "sessions_judged"],
        "rule": "one evaluation = one participant's DKG output checked against the participants' logged polynomials (share == sum_j f_j(i), key == sum C_j0 with the Taproot tweak where applicable, entries of the public package) or one post-DKG signing session; distinct = (n,t,identifier kind[,Taproot key parity])",
        "python": _py(lambda f: ck.check_dkg(f, "C07"), lambda f: ck.check_sigs(f, "C07")),
        "minimum": _min_counts(dkg_runs=(200, 1200), participants_checked=(700, 6000)),
        "assumptions": COMMON_ASSUME,
    },
    "C08": {
        "level": "fault_enumeration", "eval_keys": ["faults_injected"],
        "rule": "one evaluation = one faulty peer contribution (fault kind x field instance) injected for one (receiver, sender) pair, judged against the fault table (first consuming step, culprit); distinct = (fault class, n, t)",
        "minimum": _min_counts(faults_injected=(5000, 60000)),
        "assumptions": COMMON_ASSUME + ["error variants are recorded, only step and culprit are asserted"],
    },
    "C09": {
        "level": "exploration", "eval_keys": ["part3_calls", "part2_calls", "common_set_vectors"],
        "rule": "exhaustive small scope: every assignment of {run A, run B, absent} to each round-one slot and of {(run, addressee)} or absent to each round-two slot of every receiver (n=3 quick; n in {3,4} thorough; all t), each part2/part3 outcome compared with the executable acceptance model; plus all 2^n common-set vectors with a signing run; distinct = distinct round-one fillings per (n,t,receiver) and accepted histories",
        "exhaustive": True,
        "minimum": _min_counts(part3_calls=(10000, 600000), common_set_vectors=(150, 400), accepted_histories=(200, 800)),
        "assumptions": COMMON_ASSUME + ["scope bound: n <= 4, two concurrent runs with equal (n,t)"],
    },
    "C10": {
        "level": "exploration", "eval_keys": ["refreshed_packages_checked", "mixed_attempts"],
        "rule": "evaluations = refreshed key packages checked (group key, identifier/threshold, verifying share == G*new share == public entry) + signing attempts with mixed generations / removed participants under old and new public packages in 3 modes; distinct = (n,t,key source,procedure,|R|,chain length) and rejection classes",
        "minimum": _min_counts(refreshes=(400, 3000), mixed_attempts=(3000, 20000)),
        "assumptions": COMMON_ASSUME,
    },
    "C11": {
        "level": "exploration", "eval_keys": ["repairs", "helper_part1_calls"],
        "rule": "one evaluation = one complete repair (helper set x repaired identifier, existing or new) with per-helper delta sums checked against independently computed Lagrange coefficients; distinct = (n,t,key source,target kind,|H|) and refusal classes",
        "minimum": _min_counts(repairs=(2000, 15000)),
        "assumptions": COMMON_ASSUME,
    },
    "C12": {
        "level": "exploration", "eval_keys": ["decodes", "container_decodes", "binary_roundtrips", "json_roundtrips", "reference_verdicts_compared"],
        "rule": "evaluations = primitive decodes (every single-bit flip, every single-byte substitution, length variants, boundary integers, random strings: accepted => re-encoding equals input) + container decodes (header sweep, every truncation, embedded invalid primitives, cross-suite) + round trips (binary and JSON) + verdicts compared with the Python strict decoders; distinct = (type x check class) and adversarial classes",
        "python": lambda f, t, s, o: ck.check_dec(f, "C12"),
        "pregen": _c12_pregen,
        "minimum": _min_counts(decodes=(500000, 5000000), reference_verdicts_compared=(15000, 15000), binary_roundtrips=(1500, 3000)),
        "assumptions": COMMON_ASSUME + ["Taproot signatures are compared modulo the parity of R (the 64-byte encoding is x-only)", "trailing bytes after postcard containers and upper-case hex in JSON are recorded, not judged (the canonicity clause is about fixed-size encodings)", "a public key package whose trailing threshold is absent is the documented pre-3.0 form"],
    },
    "C13": {
        "level": "fault_enumeration", "eval_keys": ["resumed_runs"],
        "rule": "one evaluation = one participant's protocol run re-executed with its state encoded, dropped and decoded at one subset of its round boundaries (every subset in binary, every subset in JSON, random mixes), all later outputs compared byte-for-byte with the uninterrupted run; plus a second phase in which every state file saved by one process is resumed by a fresh process with the opposite history (one of the two used another ciphersuite first) and its outputs are compared with the saver's; distinct = (protocol, n, t, persistence pattern)",
        "second_phase": _c13_second_phase,
        "minimum": _min_counts(resumed_runs=(8000, 60000), cross_process_resumes=(12, 12), cross_process_outputs_compared=(120, 120)),
        "assumptions": COMMON_ASSUME + ["a restart is modelled as encode / drop / decode inside one process for the exhaustive boundary subsets, and as a real second OS process for one dealer + signing + 2-of-2 DKG scenario per shard"],
    },
    "C14": {
        "level": "exploration", "eval_keys": ["binary_decodes", "json_decodes", "protocol_calls", "consume_calls"],
        "rule": "evaluations = decoder calls on structure-aware mutated encodings (binary and JSON, all 24 types) + protocol entry-point calls on hostile wire-representable peer material + mutate-decode-consume calls, each under catch_unwind with overflow checks and debug assertions on and a write-ahead record for dead-process attribution; distinct = (decoder) and (entry point x hostile-material class)",
        "dead_is_violation": True, "supplementary": _c14_miri, "mixed_profiles": False,
        "minimum": _all(_min_counts(binary_decodes=(300000, 10000000), protocol_calls=(15000, 100000)), _c14_min),
        "assumptions": COMMON_ASSUME + ["hostile values are laundered through their own wire encoding: only what a peer can deliver is used", "the caller's own secret state is honestly generated"],
    },
    "C15": {
        "level": "exploration", "eval_keys": ["nonce_pairs_checked"],
        # both build profiles: `verif` (release + debug assertions + overflow checks) and plain `release` (what users ship):
        # a draw from the random source placed inside a debug assertion exists in one of them only
        "profiles": ["verif", "release"], "probe": "fv",
        "build": lambda build: build(profiles=("verif", "release"), bins=("fv",), parallel=True),
        "rule": "one evaluation = one nonce pair produced by commit / preprocess / SigningNonces::new under a recording source (ChaCha20, constant, periodic, counter), compared with H3(stream[64j..+32]||share), H3(stream[64j+32..+64]||share), G*nonce, and the injectivity map over all observed (bytes, share) pairs; distinct = (entry point, share kind, source, call pattern)",
        "python": lambda f, t, s, o: ck.check_nonce(f, "C15"),
        "minimum": _min_counts(nonce_pairs_checked=(15000, 200000), python_nonce_pairs=(150, 1000)),
        "assumptions": COMMON_ASSUME + ["the in-harness expectation uses the suite's H3; the Python sample re-derives H3 from the RFC"],
    },
    "C16": {
        "level": "exploration", "eval_keys": ["perturbed_runs", "reproducibility_checks", "cross_stream_comparisons"],
        "profiles": ["verif", "release"], "probe": "fv",
        "build": lambda build: build(profiles=("verif", "release"), bins=("fv",), parallel=True),
        "rule": "evaluations = perturbed re-executions (one per draw of the source) + reproducibility checks (same stream, scripted replay, counter and periodic sources) + cross-stream comparisons of every random-derived observable; distinct = (entry point, n, t)",
        "minimum": _min_counts(taint_maps=(200, 1000), perturbed_runs=(1500, 12000)),
        "assumptions": COMMON_ASSUME + ["a dead or shared draw counts only if it shows under three different base streams (rejection sampling may legitimately discard a draw)", "batch blinders are internal: decided behaviourally by C19, cross-checked here by the number of draws"],
    },
    "C17": {
        "level": "exploration", "eval_keys": ["sessions_judged", "binding_variants", "tamper_verdicts"],
        "rule": "evaluations = re-randomized sessions (seed kinds x explicit randomizers x shapes) + randomizer-binding variants (every seed bit, every commitment, signer set changes) + per-participant tampering verdicts; distinct = (n,t,identifier kind,randomizer source,|S|) and tamper classes",
        "python": _py(lambda f: ck.check_randomizer(f, "C17"), lambda f: ck.check_sigs(f, "C17", "randomized-signature-rejected")),
        "minimum": _min_counts(sessions_judged=(450, 3000), binding_variants=(4000, 30000), tamper_verdicts=(2500, 15000)),
        "assumptions": COMMON_ASSUME,
    },
    "C18": {
        "level": "exploration", "eval_keys": ["sessions_judged"], "suites": TR_ONLY, "weights": {"secp256k1-tr": 12},
        "rule": "one evaluation = one Taproot signing session (dealer or DKG keys; root absent / empty / 32, 5, 100 random bytes / 32 zero bytes / one zero byte / 32 0xff bytes, or untweaked) judged by the in-harness BIP-340 check, libsecp256k1 and the Python BIP-340/341 code; seeds are drawn until each of the 8 (internal key, output key, group commitment) parity cells per (key source, root) was seen >= 2x (quick) / 16x (thorough); distinct = filled parity cells",
        "python": lambda f, t, s, o: ck.check_taproot(f, "C18"),
        "minimum": _all(_c18_min, _min_counts(sessions_judged=(300, 1500), python_taproot_sessions=(200, 400))),
        "evidence_extra": lambda m, py: {"parity_table": {k[5:]: v for k, v in m["counts"].items() if k.startswith("cell/")}},
        "assumptions": COMMON_ASSUME,
    },
    "C19": {
        "level": "fault_enumeration", "eval_keys": ["batch_verifications"],
        "rule": "one evaluation = one Verifier::verify call (batch sizes 0..16, 31..33, 64 quick / 0..66, 127..129, 200 thorough; one invalid item at every position x 11 kinds (message, key, z+1, R+G, exchanged, -z, -R, z=0, z=1, R=G, R=key); complementary pairs and triples; duplicates), each batch under 3 verifier random streams, compared with the conjunction of individual verdicts (library, independent verifier, Item::verify_single); distinct = (size, kind)",
        "minimum": _all(_min_counts(batch_verifications=(15000, 200000), complementary_batches=(2000, 20000)), _c19_min),
        "assumptions": COMMON_ASSUME + ["the 2^-128 soundness bound itself is not measurable"],
    },
}

def _c20_min(m, tier):
    c = m["counts"]
    if c.get("control_leaky_inline_reported", 0) < 18 or c.get("control_leaky_heap_reported", 0) < 18:
        return "Leaky / LeakyVec controls were not reported in every suite and profile"
    if c.get("control_consumed_block_reported", 0) < 18:
        return "consumed-block control was not reported in every suite and profile"
    if c.get("control_blind", 0) > 0:
        return f"forget-control did not see the secret in {c['control_blind']} probes (monitor blind)"
    if c.get("conservation_missing_blocks", 0) > 0:
        return f"{c['conservation_missing_blocks']} probes where an owned heap block never reached dealloc (coverage leak)"
    return None


PROPS["C20"] = {
    "level": "exploration", "eval_keys": ["drops_checked", "zeroize_checked", "debug_renderings_checked"],
    "profiles": ["dev", "release", "verif"], "probe": "zprobe",
    "build": lambda build: build(profiles=("dev", "release", "verif"), bins=("zprobe",), parallel=True),
    "weights": {"ed25519": 1, "ristretto255": 1, "ed448": 1, "p256": 1, "secp256k1": 1, "secp256k1-tr": 1},
    "rule": "evaluations = drops of secret-bearing values (9 types, values from real protocol runs) placed in a harness-owned slot, a Box and a Vec, with the instrumented allocator scanning every freed block and the vacated storage for the secret scalars' memory image and canonical encoding + explicit zeroize() checks (getters, owned heap blocks, inline image) + Debug renderings searched for any encoding of a secret; repeated in dev, release and verif builds; distinct = (profile, type, placement/check)",
    "minimum": _all(_min_counts(drops_checked=(2000, 30000), zeroize_checked=(800, 10000), debug_renderings_checked=(800, 10000)), _c20_min),
    "assumptions": COMMON_ASSUME + ["only the storage the value occupied and the heap blocks it owned are observed — not registers, spilled temporaries or copies the compiler made", "SigningShare and Nonce are Copy and have no destructor (documented in the book): only the zeroize() and Debug clauses apply to them", "a hit must reproduce in three consecutive attempts (stale allocator contents do not reproduce)"],
}

MANIFEST_TEXT = {
    "C01": {"technique": "runtime monitoring: honest sessions under seeded shape/identifier/subset/message workloads, judged online by library + independent + external verifiers and offline by a Python RFC 8032 / BIP-340 / RFC 9591 reference",
            "text": "Exploration: thousands of honest sessions per ciphersuite over every (n,t) up to 6 (quick) / 12 (thorough) plus large shapes, five identifier kinds, dealer/DKG/edge keys, prefix and non-prefix signer sets of every size, 15 message classes. Every session must aggregate in all detection modes, every share must verify, and the decoded signature must be accepted by four independent verifiers.",
            "note": "Sampled over keys/nonces; curve crates are a calculator for the in-harness verifier; the Python sample does not depend on them."},
    "C02": {"technique": "runtime monitoring with differential oracle: the library's recorded intermediates re-derived byte-for-byte offline by a from-scratch Python RFC 9591 / BIP-340 implementation; exhaustive u16 identifier encodings; independent signers and verifiers both ways",
            "text": "Exploration, differential: sessions over identifier kinds (incl. > 65535, near-order, hash-derived), 2..12 signers, |S| = t / > t / = n, 15 message classes, dealer/DKG/edge keys; every value from nonce derivation to the final signature compared with the reference; identifier encodings exhaustive over u16; SigningKey::sign judged by the Python RFC 8032/BIP-340/RFC 9591 verifiers and RFC 8032 / BIP-340 / prime-order reference signers, ed25519-dalek and libsecp256k1 judged by the library.",
            "note": "The Python reference is the trusted base, pinned to the RFC vectors."},
    "C03": {"technique": "runtime monitoring: every sub-threshold holder set driven through sign/aggregate/reconstruct with honest and lying thresholds; independent verifier judges whatever can be assembled",
            "text": "Exploration with exhaustive subsets per shape: every holder set of size 1..t-1 (sampled above a cap) must be refused by signer and coordinator, must never obtain a signature in any detection mode even when all thresholds are lowered or absent (also through frost-rerandomized), must not reconstruct the key; polynomial degree is probed from both sides.",
            "note": "Mechanical threshold enforcement only; unforgeability against arbitrary adversaries is not runtime-observable."},
    "C04": {"technique": "runtime monitoring with fault injection: every non-empty cheater subset x alteration kind x detection mode, oracle knows the altered slots",
            "text": "Fault enumeration: per signer set every non-empty subset of cheaters x {+1, negated, zero, another signer's share, concurrent-session share, random} and cancelling pairs/triples; culprit lists compared with integer-ordered expectations; whatever is released is verified independently; also through frost-rerandomized; Taproot parity branches recorded.",
            "note": "Exhaustive over cheater subsets of the sampled signer sets."},
    "C05": {"technique": "runtime monitoring over two-session histories: exhaustive slot fillings and single-field substitutions against an executable session model",
            "text": "Fault enumeration over histories: two concurrent sessions of the same signers; every way of filling commitment and share slots from A/B (4^k), every single-field substitution of the package (message, each commitment component, signer set, group key, claimed identifier), own-entry and identity-commitment cases.",
            "note": "Model: a share is valid only under exactly its own package."},
    "C06": {"technique": "runtime monitoring: dealer outputs checked against the polynomial identity recomputed outside the library, every single-coordinate tampering, parameter grid; Python re-checks a sample",
            "text": "Exploration + fault enumeration: all (n,t) up to 7/14, five identifier kinds, keys {random,1,order-1}; every share checked for G*s_i == sum id^k C_k, thresholds, group key, reconstruction by t and not by t-1 shares; every tampering position must be rejected; u16 boundary parameter grid.",
            "note": "Sampler not modelled here."},
    "C07": {"technique": "runtime monitoring: DKG outputs of every participant compared with the participants' own logged polynomials; Python BIP-341 / RFC re-check",
            "text": "Exploration: all (n,t) up to 5/9 x five identifier kinds; equal public packages, share == sum_j f_j(i), group key == sum of constant terms (Taproot: key-path tweak), every t-subset (capped) signs.",
            "note": "Coefficients read through the crate's `internals` feature."},
    "C08": {"technique": "runtime monitoring with fault injection: one faulty contribution per run, fault table oracle (first consuming step, culprit)",
            "text": "Fault enumeration: every (receiver, sender) pair x ~30 fault kinds x every field instance, n up to 4/6, three identifier kinds. The error must surface at the first consuming step and name exactly the slot of the faulty contribution when attributable.",
            "note": "Error variants recorded, not asserted."},
    "C09": {"technique": "runtime monitoring of a scripted network: exhaustive delivery histories of two concurrent DKG runs against an executable acceptance model",
            "text": "Exhaustive small scope (n=3 quick; n in {3,4} thorough, all t, every receiver): all round-one and round-two slot fillings; accepted histories must be internally consistent with the filed commitments; all 2^n common-set vectors complete, agree and sign.",
            "note": "Scope bound n<=4, two runs."},
    "C10": {"technique": "runtime monitoring: both refresh procedures over every remaining set, chains of refreshes, every old/new mix, rejection cases",
            "text": "Exploration + fault enumeration: every remaining set R (|R|>=t) for n up to 5/8, dealer and distributed refresh, chains of 1-3, dealer and DKG starting keys; positive clauses on every refreshed package; every proper old/new mix and removed participants must fail under old and new public packages in 3 modes; threshold change / unknown participant / non-zero constant term rejected.",
            "note": "Found and led to the repair of the stale verifying share (known_findings.json)."},
    "C11": {"technique": "runtime monitoring: complete repairs over helper sets and target identifiers, delta sums against independent Lagrange coefficients",
            "text": "Exploration: all helper sets t<=|H|<=n-1 (sampled above a cap) x existing and new identifiers (small, derived, near-order) x dealer/DKG/refreshed keys, n up to 6/9; refusals for too few, duplicate and caller-omitting helper lists.",
            "note": ""},
    "C12": {"technique": "runtime monitoring with differential oracle: re-encode equality on exhaustive single-bit/single-byte deviations; Python strict decoders supply adversarial encodings and judge a sample",
            "text": "Exploration: 24 wire types x 6 suites. Round trips (binary, JSON) on values from real runs; primitive decoders on every bit flip, every byte substitution, length variants, boundary integers, random strings, small/mixed-order and non-canonical points generated by the reference; containers on header sweeps, every truncation, embedded invalid primitives, cross-suite encodings.",
            "note": "Found and led to the repair of SEC1 tag 0x05 and the ignored Ed448 scalar byte (known_findings.json)."},
    "C13": {"technique": "runtime monitoring over crash points: encode/drop/decode (binary, JSON, custom serialization by components) at every subset of round boundaries, byte-equality of all later outputs; cross-process save/resume with differing process histories and build profiles",
            "text": "Fault enumeration over crash points: DKG, distributed refresh, dealer keygen, dealer refresh, repair, coordinator; every participant x every subset of boundaries in binary and in JSON plus random mixes.",
            "note": "Exhaustive boundary subsets are restarted in-process; one scenario per shard is resumed in a real second process."},
    "C14": {"technique": "sanitizer-style runtime monitoring: catch_unwind + panic hook + rustc overflow/debug assertions + subprocess isolation with write-ahead input record",
            "text": "Exploration: structure-aware mutation of every type's binary and JSON encodings, hostile wire-representable peer material for every protocol entry point (empty/oversized/duplicated/inconsistent/cross-group, commitment lengths wrapping u16), and mutate-decode-consume chains. A panic, abort or signal death is the refutation event.",
            "note": "A clean run is not a proof of panic-freedom; inputs the mutators never produce are not covered."},
    "C15": {"technique": "runtime monitoring of the random source: recording RNG, byte-stream oracle H3(bytes||share), injectivity map; Python re-derivation of a sample; every shard in two build profiles (release with and without debug assertions)",
            "text": "Exploration over RNG histories: six share kinds x five sources x commit / preprocess(k) / direct constructors / interleaved signers; bytes consumed, derivation of hiding and binding nonce, commitments, uniqueness.",
            "note": ""},
    "C16": {"technique": "runtime monitoring of the random source: reproducibility, cross-stream comparison, a taint map obtained by perturbing one draw at a time, bytes-drawn-per-coefficient law at large sizes; every shard in two build profiles",
            "text": "Exploration: ten RNG-taking entry points x shapes; same stream => identical bytes; other stream => every random-derived observable changes; observables pairwise distinct; no dead draw; independent observables each have a private draw; randomizer seed == drawn bytes; batch verification draws once per item.",
            "note": "Order-agnostic matching; three base streams before a dead/shared draw counts."},
    "C17": {"technique": "runtime monitoring: re-randomized sessions with independent verification under randomized and original key, binding sweeps, per-participant tampering",
            "text": "Exploration + fault enumeration: seeds {RNG, zero, empty, 1 KiB}, explicit randomizers {0,1,random}; regenerated parameters, hash derivation (Python re-derives), verify under randomized key only, every seed bit / commitment / signer-set change alters the randomizer, tampered participant is named exactly.",
            "note": "Threshold and cheater clauses also run through frost-rerandomized in C03/C04."},
    "C18": {"technique": "runtime monitoring with forced coverage: sessions repeated until all 8 parity combinations occurred; BIP-340/341 judged by libsecp256k1 and a Python reference",
            "text": "Exploration with forced coverage: dealer and DKG keys x root {absent, empty, 32 / 5 / 100 random bytes, 32 zero bytes, one zero byte, 32 0xff bytes, untweaked}; every parity cell observed >= 2 (quick) / 16 (thorough) times; output key per BIP-341, not valid under the internal key, share verification and cheater identification identical in every cell.",
            "note": "Taproot ciphersuite only."},
    "C20": {"technique": "purpose-built secret sanitizer: instrumented global allocator scanning freed blocks, raw scan of vacated storage after drop_in_place, forget/Leaky controls; three build profiles",
            "text": "Exploration: 9 secret-bearing types x 6 suites x values from real runs x {slot, Box, Vec} x {dev, release, verif} builds. After drop neither the vacated storage nor any heap block the value owned may contain the memory image or canonical encoding of a secret scalar; after zeroize() getters, owned heap buffers and the inline image are clean; Debug output contains no encoding of a secret. Controls (mem::forget, Leaky, LeakyVec) must fire, ownership conservation must hold, else inconclusive.",
            "note": "Observes the value's own storage only; release build is what users ship."},
    "C19": {"technique": "runtime monitoring with fault injection: batches with invalid items at every position, cancelling pairs/triples, three verifier streams; constant-RNG control",
            "text": "Fault enumeration: sizes 0..16 + 31..33 + 64 (quick) / 0..66 + 127..129 + 200 (thorough), mixed FROST and single-signer items, eleven invalid kinds at every position (relative alterations and the special values z=0, z=1, R=G, R=key), complementary pairs and triples, duplicates, runs of consecutive items under one key; verdict must equal the conjunction of individual verdicts judged three ways.",
            "note": "The probability bound is not measured."},
}
