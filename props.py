"""Per-property configuration for check.py: level, rule text, evaluation keys, observation minimum,
offline checker, assumptions."""
from oracle import checkers as ck

COMMON_ASSUME = [
    "the dependency curve crates (curve25519-dalek, ed448-goldilocks, p256, k256) are used as calculators by the in-harness oracles; the sampled Python re-judgement does not share them",
    "workloads are seeded (VERIF_SEED); held = no refutation event on the executions listed, not a proof",
]


def extra_builds(build):
    return True


def _min_counts(**need):
    def f(m, tier):
        for k, (q, t) in need.items():
            want = q if tier == "quick" else t
            have = m["counts"].get(k, 0)
            if have < want:
                return f"{k}={have} < {want}"
        return None
    return f


PROPS = {
    "C01": {
        "level": "exploration",
        "eval_keys": ["sessions_judged"],
        "rule": "one evaluation = one honest signing session (keygen source x shape x identifier kind x signer subset x message) "
                "taken to aggregate and judged by library verify, the independent in-harness verifier, ed25519-dalek "
                "verify_strict / libsecp256k1 where they exist, and (sampled) the Python reference; distinct = distinct "
                "(n,t,identifier kind,key source,|S| class,message class) tuples that reached every verifier",
        "python": lambda files, tier, seed, out: ck.check_sigs(files, "C01"),
        "minimum": _min_counts(sessions_judged=(2500, 20000), python_sigs_judged=(600, 1500), signer_set_non_prefix=(500, 5000)),
        "assumptions": COMMON_ASSUME + ["secret keys, polynomials and nonces are sampled, not enumerated"],
    },
}

MANIFEST_TEXT = {
    "C01": {
        "technique": "runtime monitoring: honest signing sessions under seeded shape/identifier/subset/message workloads, judged online by four verifiers and offline by a Python RFC 8032 / BIP-340 / RFC 9591 reference",
        "text": "Exploration: thousands of honest sessions per ciphersuite over every (n,t) up to 6 (quick) / 12 (thorough) plus large shapes, five identifier kinds, dealer/DKG/edge keys, prefix and non-prefix signer sets of every size t..n, 15 message classes. Every session must aggregate in all three detection modes, every share must verify, and the decoded signature must be accepted by the library, by an independent in-harness verifier (own challenge hash), by ed25519-dalek verify_strict / libsecp256k1 and, for a sample, by a from-scratch Python verifier.",
        "note": "Sampled, not exhaustive, over keys/nonces; curve crates are a calculator for the in-harness verifier; the Python sample does not depend on them.",
    },
}
