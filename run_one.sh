#!/bin/bash
# dev helper: run one property single-shard per suite and summarise
P=$1; shift
for s in ${SUITES:-ed25519 ristretto255 ed448 p256 secp256k1 secp256k1-tr}; do
  /usr/bin/time -f "$s %es" /verif/target/verif/fv $P --suite $s --out /verif/run/dev "$@"
  python3 - <<PY
import json
d=json.load(open('/verif/run/dev/$P.$s.0.json'))
c=d['counts']
print('  items',d['items_total'],'classes',len(d['classes']),'viol',d['violation_count'], str({k:v for k,v in list(c.items())})[:${W:-600}])
print('  sigs', d['viol_per_sig'])
for v in d['violations'][:${NV:-2}]: print('   V',v['signature'],v['desc'],json.dumps(v['detail'])[:500])
PY
done
