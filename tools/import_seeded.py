#!/usr/bin/env python3
"""import a confirmed seeded change: tools/import_seeded.py <src> <id> <property> <needs> <caught_by> [<missed_before>]"""
import json, os, shutil, sys, glob
src, sid, prop, needs, caught = sys.argv[1:6]
missed = sys.argv[6] if len(sys.argv) > 6 else ""
dst = os.path.join(os.path.dirname(os.path.dirname(os.path.abspath(__file__))), "seeded", sid)
os.makedirs(dst, exist_ok=True)
shutil.copy(os.path.join(src, "patch.diff"), dst)
demos = glob.glob(os.path.join(src, "*.rs"))
for d in demos: shutil.copy(d, dst)
if os.path.exists(os.path.join(src, "notes.md")): shutil.copy(os.path.join(src, "notes.md"), os.path.join(dst, "notes.md"))
meta = {"id": sid, "breaks_property": prop, "needs_to_manifest": needs,
        "origin": "independent sub-agent given only the property text and its own scratch worktree",
        "demonstration": [os.path.basename(d) for d in demos],
        "demonstration_how": "copy the .rs file into frost-ed25519/tests/ (unless notes.md names another crate) and run `cargo test -p frost-ed25519 --offline --test <name>`",
        "confirmed_by_me": {"in": "scratch worktree under /tmp/wt (removed afterwards)",
            "ran": ["git apply patch.diff", "cargo test --workspace --offline --no-fail-fast  -> exit 0, 577 passed, 0 failed",
                    "demo with the change -> FAILED", "git checkout -- . ; demo without the change -> ok"]},
        "checks_run": "tools/try_seeded.py <patch> <checks> (applies to /repo, runs quick checks, git checkout -- .)",
        "caught_by_quick": caught.split(",") if caught else [],
        "missed_before_strengthening": missed}
json.dump(meta, open(os.path.join(dst, "meta.json"), "w"), indent=1)
print("imported", sid)
