#!/bin/bash
# confirm a seeded change in a scratch worktree: suite green with it, demo fails with it and passes without
# usage: confirm_seeded.sh <worktree> <seeded-subdir> <crate> <demo-test-name> [full|fast]
WT=$1; SD=$2; CRATE=$3; NAME=$4; MODE=${5:-full}
cd $WT || exit 2
git checkout -q -- . ; rm -f $CRATE/tests/$NAME.rs
git apply $SD/patch.diff || { echo "PATCH DOES NOT APPLY"; exit 2; }
if [ "$MODE" = full ]; then
  cargo test --workspace --offline --no-fail-fast > /tmp/confirm_suite.log 2>&1; rc=$?
  echo "suite with change: exit=$rc passed=$(grep -c '^test .* ok$' /tmp/confirm_suite.log) failed=$(grep -c '^test .* FAILED$' /tmp/confirm_suite.log)"
fi
DEMO=$(ls $SD/*.rs | head -1); cp $DEMO $CRATE/tests/$NAME.rs
cargo test -p $CRATE --offline --test $NAME > /tmp/confirm_demo_with.log 2>&1; echo "demo WITH change: exit=$? ($(grep -E '^test result' /tmp/confirm_demo_with.log | head -1))"
git checkout -q -- .
cargo test -p $CRATE --offline --test $NAME > /tmp/confirm_demo_without.log 2>&1; echo "demo WITHOUT change: exit=$? ($(grep -E '^test result' /tmp/confirm_demo_without.log | head -1))"
rm -f $CRATE/tests/$NAME.rs; git status --short | grep -v SEEDED | head
