#!/usr/bin/env python3
"""prints the markdown table of seeded changes from seeded/*/meta.json"""
import glob, json, os
root = os.path.dirname(os.path.dirname(os.path.abspath(__file__)))
rows = []
for f in sorted(glob.glob(os.path.join(root, "seeded", "*", "meta.json"))):
    m = json.load(open(f))
    rows.append(m)
print("| seeded change | breaks | what it needs to manifest | caught by (quick) | note |")
print("|---|---|---|---|---|")
for m in rows:
    note = ("missed at first: " + m["missed_before_strengthening"]) if m.get("missed_before_strengthening") else ""
    print(f"| `{m['id']}` | {m['breaks_property']} | {m['needs_to_manifest']} | {', '.join(m['caught_by_quick'])} | {note} |")
print()
print(f"{len(rows)} changes; {sum(1 for m in rows if m.get('missed_before_strengthening'))} were missed by the target property's check when first tried and are caught since the strengthening named in the note.")
