#!/usr/bin/env python3
"""Mechanical mutation sweep: how many small source changes do the quick checks notice?

    tools/mutants.py gen                       -> mutation/sites.json (deterministic list of mutation sites)
    tools/mutants.py run <worker> <i>/<N> [--max K] [--hours H]
                                               -> mutation/results.<worker>.jsonl
    tools/mutants.py report                    -> mutation/REPORT.md

A mutant lives only in a scratch worktree (/tmp/wt/mut<worker>), never in /repo; the checks are pointed at it with
FV_REPO. For every mutant the checks most relevant to the mutated file run first; the first check that reports a
violation kills the mutant. A mutant that survives every check is then tried against the crate's own test suite:
only a mutant that *also* passes the existing tests is a real miss ("survivor")."""
import hashlib, json, os, random, re, subprocess, sys, time
ROOT = os.path.dirname(os.path.dirname(os.path.abspath(__file__)))
OUT = os.path.join(ROOT, "mutation")
ALL = [f"C{i:02d}" for i in range(1, 21)]
FILES = {
    "frost-core/src/lib.rs": ["C01", "C04", "C05", "C02", "C03", "C12", "C14"],
    "frost-core/src/keys.rs": ["C06", "C03", "C01", "C07", "C12", "C20", "C14"],
    "frost-core/src/keys/dkg.rs": ["C07", "C08", "C09", "C01", "C20", "C14", "C13"],
    "frost-core/src/keys/refresh.rs": ["C10", "C09", "C14", "C16"],
    "frost-core/src/keys/repairable.rs": ["C11", "C16", "C14"],
    "frost-core/src/round1.rs": ["C15", "C02", "C12", "C05", "C20"],
    "frost-core/src/round2.rs": ["C01", "C04", "C05", "C02"],
    "frost-core/src/signature.rs": ["C12", "C01", "C02"],
    "frost-core/src/signing_key.rs": ["C02", "C12", "C16", "C20"],
    "frost-core/src/verifying_key.rs": ["C01", "C02", "C12", "C19"],
    "frost-core/src/batch.rs": ["C19", "C16"],
    "frost-core/src/identifier.rs": ["C02", "C12", "C06", "C01"],
    "frost-core/src/serialization.rs": ["C12", "C13", "C14", "C20"],
    "frost-core/src/scalar_mul.rs": ["C01", "C19", "C04", "C07"],
    "frost-core/src/traits.rs": ["C01", "C02", "C12"],
    "frost-rerandomized/src/lib.rs": ["C17", "C16", "C14"],
    "frost-secp256k1-tr/src/lib.rs": ["C18", "C01", "C04", "C07", "C11", "C12", "C02"],
    "frost-ed25519/src/lib.rs": ["C02", "C12", "C01"],
    "frost-ed448/src/lib.rs": ["C02", "C12", "C01"],
    "frost-p256/src/lib.rs": ["C02", "C12", "C01"],
    "frost-ristretto255/src/lib.rs": ["C02", "C12", "C01"],
    "frost-secp256k1/src/lib.rs": ["C02", "C12", "C01"],
}
SKIP_LINE = re.compile(r"^\s*(//|#\[|#!\[|\*|/\*|use |pub use |mod |pub mod |extern )|\b(fn|impl|where|trait|type|struct|enum|macro_rules)\b|debug_assert|assert")
SWAPS = [(" == ", " != "), (" != ", " == "), (" < ", " <= "), (" <= ", " < "), (" > ", " >= "), (" >= ", " > "),
         (" + ", " - "), (" - ", " + "), (" && ", " || "), (" || ", " && "), (".is_some()", ".is_none()"), (".is_none()", ".is_some()"),
         (".is_ok()", ".is_err()"), (".is_err()", ".is_ok()"), (" * ", " + "), ("if !", "if "), (" += ", " -= "), (" -= ", " += ")]


def sh(cmd, **kw):
    return subprocess.run(cmd, shell=True, text=True, stdout=subprocess.PIPE, stderr=subprocess.STDOUT, **kw)


def code_lines(path):
    """(index, line) for library code lines; stops at the test module"""
    lines = open(path).read().split("\n")
    out = []
    for i, l in enumerate(lines):
        if re.match(r"^\s*#\[cfg\(test\)\]", l) or re.match(r"^\s*(pub )?mod tests?\b", l):
            # a cfg(test) item: everything from here on in this file is test code only if it is a trailing module
            if any(re.match(r"^\s*(pub )?mod \w+ \{", x) for x in lines[i:i + 3]):
                break
        out.append((i, l))
    return lines, out


def gen():
    sites = []
    for f in FILES:
        lines, cl = code_lines(os.path.join("/repo", f))
        for i, l in cl:
            if SKIP_LINE.search(l):
                continue
            code = l.split("//")[0]
            if re.match(r"^\s*(\+|>|<|\||&)", code) or re.match(r"^\s*let \(", code) and False:
                continue
            # 1. a guard whose body is an early error return: never taken
            m = re.match(r"^(\s*)if (.+) \{\s*$", code)
            if m and i + 1 < len(lines) and re.match(r"^\s*return Err\(", lines[i + 1]) and not m.group(2).startswith("let "):
                sites.append({"file": f, "line": i + 1, "kind": "guard-removed", "old": l, "new": f"{m.group(1)}if false {{"})
            # 2. a validation call whose only effect is `?`
            if re.match(r"^\s*[A-Za-z_][A-Za-z0-9_:<>, ]*\([^;]*\)\?;\s*$", code) and "=" not in code.split("(")[0] and not code.strip().startswith("let "):
                sites.append({"file": f, "line": i + 1, "kind": "check-call-dropped", "old": l, "new": re.match(r"^\s*", l).group(0) + "// (dropped)"})
            # 3. wiping calls
            if re.match(r"^\s*[a-z_.0-9\[\]]+\.zeroize\(\);\s*$", code):
                sites.append({"file": f, "line": i + 1, "kind": "zeroize-dropped", "old": l, "new": re.match(r"^\s*", l).group(0) + "// (dropped)"})
            # 4. operator swaps (first occurrence on the line)
            for a, b in SWAPS:
                if a in code and not (a.strip() in ("<", ">", "<=", ">=") and ("<" in code.replace(a, "") and ">" in code.replace(a, "") and "::<" in code)):
                    k = code.index(a)
                    if code[:k].count('"') % 2 == 1:
                        continue
                    sites.append({"file": f, "line": i + 1, "kind": f"swap{a.strip()}->{b.strip() or 'none'}", "old": l, "new": l[:k] + b + l[k + len(a):]})
    for s in sites:
        s["id"] = hashlib.sha256(f"{s['file']}:{s['line']}:{s['kind']}".encode()).hexdigest()[:10]
    os.makedirs(OUT, exist_ok=True)
    json.dump(sites, open(os.path.join(OUT, "sites.json"), "w"), indent=0)
    by = {}
    for s in sites:
        by[s["file"]] = by.get(s["file"], 0) + 1
    print(len(sites), "sites", by)


def run(worker, sl, maxn, hours):
    i, n = map(int, sl.split("/"))
    sites = json.load(open(os.path.join(OUT, "sites.json")))
    random.Random(7).shuffle(sites)
    mine = sites[i::n]
    wt = f"/tmp/wt/mut{worker}"
    if not os.path.isdir(wt):
        r = sh(f"git -C /repo worktree add --detach {wt} HEAD")
        assert r.returncode == 0, r.stdout
    resf = os.path.join(OUT, f"results.{worker}.jsonl")
    done = set()
    for f in [x for x in os.listdir(OUT) if x.startswith("results.")]:
        for l in open(os.path.join(OUT, f)):
            done.add(json.loads(l)["id"])
    t_end = time.time() + hours * 3600
    cnt = 0
    env = dict(os.environ, FV_REPO=wt, FV_WATCHDOG="240", CARGO_NET_OFFLINE="true")
    # the checks run from a frozen snapshot of /verif, so that work going on in /verif cannot disturb the sweep
    snap = "/tmp/wt/vsnap"
    if not os.path.isdir(snap):
        sh(f"rsync -a --exclude run --exclude target --exclude .git --exclude mutation {ROOT}/ {snap}/")
    for s in mine:
        if s["id"] in done:
            continue
        if cnt >= maxn or time.time() > t_end:
            break
        cnt += 1
        sh(f"git -C {wt} checkout -q -- .")
        p = os.path.join(wt, s["file"])
        lines = open(p).read().split("\n")
        if lines[s["line"] - 1] != s["old"]:
            continue
        lines[s["line"] - 1] = s["new"]
        open(p, "w").write("\n".join(lines))
        rec = dict(s, verdict="survived-checks", killed_by=None, signatures=[], checks_run=[], t0=time.time())
        order = FILES[s["file"]] + [c for c in ALL if c not in FILES[s["file"]]]
        for c in order:
            t0 = time.time()
            try:
                r = sh(f"./check.py {c} quick", cwd=snap, env=env, timeout=1500)
                rc, out = r.returncode, r.stdout
            except subprocess.TimeoutExpired:
                rc, out = 2, "INCONCLUSIVE outer timeout"
            rec["checks_run"].append([c, rc, round(time.time() - t0)])
            if rc == 1:
                rec.update(verdict="killed", killed_by=c, signatures=sorted(set(re.findall(r"signature=(\S+)", out)))[:4])
                break
            if rc == 2:
                if "error" in out and ("could not compile" in out or "error[E" in out or "error:" in out):
                    rec.update(verdict="does-not-compile")
                    break
                # dead shards / watchdog / minimum not met: noticed, but as inconclusive - remember and go on
                rec.setdefault("inconclusive", []).append([c, (re.findall(r"INCONCLUSIVE.*", out) or [""])[0][:200]])
        if rec["verdict"] == "survived-checks":
            crate = s["file"].split("/")[0]
            pk = "-p frost-core -p frost-ed25519 -p frost-p256 -p frost-rerandomized" if crate == "frost-core" else f"-p {crate}"
            if crate == "frost-rerandomized":
                pk = "-p frost-rerandomized -p frost-ed25519 -p frost-p256"
            try:
                r = sh(f"cargo test {pk} --offline --no-fail-fast", cwd=wt, env=dict(os.environ, CARGO_NET_OFFLINE="true"), timeout=3000)
                failed = len(re.findall(r"^test .* FAILED$", r.stdout, re.M))
                rec["existing_tests"] = {"packages": pk, "exit": r.returncode, "failed": failed}
                rec["verdict"] = "survivor" if r.returncode == 0 else "killed-by-existing-tests-only"
            except subprocess.TimeoutExpired:
                rec["existing_tests"] = {"packages": pk, "exit": None}
                rec["verdict"] = "killed-by-existing-tests-only"
        rec["secs"] = round(time.time() - rec.pop("t0"))
        open(resf, "a").write(json.dumps(rec) + "\n")
        print(rec["id"], rec["file"], rec["line"], rec["kind"], "->", rec["verdict"], rec["killed_by"], rec["secs"], flush=True)
    sh(f"git -C {wt} checkout -q -- .")


ANALYSIS = {
    ("frost-rerandomized/src/lib.rs", 75): "not observable: the `Randomize` trait is private and the randomized KeyPackage's verifying share is never read by `sign`",
    ("frost-core/src/keys/dkg.rs", 365): "outside the listed properties: validation of the caller's *own* (n, t) in dkg::part1 (C06 states it for the dealer only; C14 covers peer material only)",
    ("frost-core/src/keys/refresh.rs", 186): "outside the listed properties: validation of the caller's own (n, t) in refresh_dkg_part1",
    ("frost-core/src/lib.rs", 516): "equivalent: an identity commitment is already refused when the binding factor input is encoded (identity does not serialize)",
    ("frost-core/src/lib.rs", 300): "equivalent: every public caller passes a non-empty set (checked earlier)",
    ("frost-core/src/lib.rs", 323): "equivalent: every public caller checks membership first",
    ("frost-core/src/serialization.rs", 416): "outside the listed properties: duplicate member in the JSON form of PublicKeyPackage (C12 speaks about round trip, canonical fixed-size encodings and the listed rejections)",
    ("frost-core/src/serialization.rs", 425): "outside the listed properties: duplicate JSON member (see above)",
    ("frost-core/src/serialization.rs", 435): "outside the listed properties: duplicate JSON member (see above)",
    ("frost-core/src/serialization.rs", 445): "outside the listed properties: duplicate JSON member (see above)",
    ("frost-core/src/keys/dkg.rs", 569): "equivalent up to the error kind: the key-set comparison a few lines later refuses the same inputs",
    ("frost-core/src/keys/dkg.rs", 572): "equivalent up to the error kind (see above)",
    ("frost-core/src/keys/dkg.rs", 575): "equivalent up to the error kind (see above)",
    ("frost-ristretto255/src/lib.rs", 110): "equivalent for the properties: *encoding* the identity is refused twice over (explicit identity checks in the callers); decoding still rejects it",
    ("frost-ed448/src/lib.rs", 110): "equivalent for the properties (see ristretto255)",
    ("frost-ed25519/src/lib.rs", 110): "equivalent for the properties (see ristretto255)",
    ("frost-secp256k1-tr/src/lib.rs", 711): "was a real miss: `GroupCommitment::into_even_y` (public EvenY helper, unused internally). C18 now checks the helper on every implementing type and kills it",
    ("frost-core/src/scalar_mul.rs", 104): "equivalent: another valid signed-digit representation of the same scalar",
    ("frost-core/src/scalar_mul.rs", 84): "equivalent: both branches compute the same bits at the boundary",
    ("frost-core/src/scalar_mul.rs", 79): "equivalent: one more iteration over a zero digit",
    ("frost-core/src/signature.rs", 83): "equivalent: only a capacity hint",
    ("frost-core/src/keys/repairable.rs", 122): "equivalent up to the error kind: the Lagrange computation refuses an identifier outside the set",
    ("frost-core/src/keys/refresh.rs", 248): "equivalent at the level of the property: refresh_dkg_shares repeats the count check, the refresh still fails",
    ("frost-core/src/keys/refresh.rs", 384): "outside the listed properties: a refresh run in which a participant is handed fewer contributions than it gave to part 2 (C10 lists threshold change, unknown participant, non-zero constant term; C09 speaks about key generation histories)",
    ("frost-core/src/keys/refresh.rs", 387): "outside the listed properties (see the line above)",
    ("frost-core/src/lib.rs", 623): "was a real miss, found independently as seeded change C05-5 (a share filed under a non-signer's identifier): C05 now relabels shares and kills it",
    ("frost-core/src/keys.rs", 871): "not reachable through the public API with a wrong coefficient count",
    ("frost-core/src/keys.rs", 844): "equivalent up to the error kind: n < 2 with t >= 2 is refused by the t > n test (the existing tests pin the kind)",
    ("frost-core/src/keys.rs", 869): "redundant second validation in an internal function (public entry points validate first); the existing tests call the internal function",
    ("frost-core/src/keys.rs", 978): "duplicate packages given to reconstruct: with the check gone the result is a wrong key, not the group key - C03/C06 state nothing about the error",
}


def report():
    recs = {}
    for f in sorted(x for x in os.listdir(OUT) if x.startswith("results.")):
        for l in open(os.path.join(OUT, f)):
            r = json.loads(l)
            recs[r["id"]] = r
    recs = list(recs.values())
    v = {}
    for r in recs:
        v[r["verdict"]] = v.get(r["verdict"], 0) + 1
    lines = ["# Mechanical mutation sweep", "", f"{len(recs)} mutants tried: " + ", ".join(f"{k} {n}" for k, n in sorted(v.items())), ""]
    kb = {}
    for r in recs:
        if r["verdict"] == "killed":
            kb[r["killed_by"]] = kb.get(r["killed_by"], 0) + 1
    lines += ["Killed by (first check that fired): " + ", ".join(f"{k} {n}" for k, n in sorted(kb.items())), ""]
    for verdict in ["survivor", "killed-by-existing-tests-only"]:
        lines += [f"## {verdict}", "", "| file:line | kind | old | new | note |", "|---|---|---|---|---|"]
        for r in sorted(recs, key=lambda r: (r["file"], r["line"])):
            if r["verdict"] == verdict:
                note = ANALYSIS.get((r["file"], r["line"]), r.get("analysis", ""))
                lines.append(f"| {r['file']}:{r['line']} | {r['kind']} | `{r['old'].strip()[:90]}` | `{r['new'].strip()[:90]}` | {note} |")
        lines.append("")
    open(os.path.join(OUT, "REPORT.md"), "w").write("\n".join(lines))
    print("\n".join(lines[:6]))


if __name__ == "__main__":
    a = sys.argv[1:]
    if a[0] == "gen":
        gen()
    elif a[0] == "run":
        maxn = int(a[a.index("--max") + 1]) if "--max" in a else 10 ** 9
        hours = float(a[a.index("--hours") + 1]) if "--hours" in a else 1.0
        run(a[1], a[2], maxn, hours)
    elif a[0] == "report":
        report()
