#!/usr/bin/env python3
import subprocess, os
root = os.path.dirname(os.path.dirname(os.path.abspath(__file__)))
p = os.path.join(root, "DESIGN.md")
s = open(p).read()
t = subprocess.run(["python3", os.path.join(root, "tools", "seeded_table.py")], capture_output=True, text=True).stdout
a = s.index("<!-- SEEDED-TABLE-BEGIN -->") + len("<!-- SEEDED-TABLE-BEGIN -->\n")
b = s.index("<!-- SEEDED-TABLE-END -->")
open(p, "w").write(s[:a] + t + s[b:])
print("table updated")
