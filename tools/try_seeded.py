#!/usr/bin/env python3
"""Apply one seeded change to /repo, run the given checks (quick by default), undo the change.

    tools/try_seeded.py <patch.diff> [--tier quick|thorough] [--seed N] Cxx [Cyy ...]   (or `all`)

Prints one line per check: exit code and the violation signatures seen. /repo is always restored."""
import json, os, re, subprocess, sys, time
ROOT = os.path.dirname(os.path.dirname(os.path.abspath(__file__)))
ALL = [f"C{i:02d}" for i in range(1, 21)]

def sh(cmd, **kw):
    return subprocess.run(cmd, shell=True, text=True, stdout=subprocess.PIPE, stderr=subprocess.STDOUT, **kw)

def main():
    args = sys.argv[1:]
    patch = os.path.abspath(args[0]); args = args[1:]
    tier, seed, props = "quick", None, []
    i = 0
    while i < len(args):
        if args[i] == "--tier": tier = args[i+1]; i += 1
        elif args[i] == "--seed": seed = args[i+1]; i += 1
        elif args[i] == "all": props = ALL[:]
        else: props.append(args[i])
        i += 1
    st = sh("git -C /repo status --porcelain --untracked-files=no").stdout.strip()
    if st:
        print("refusing: /repo has uncommitted changes:\n" + st); sys.exit(2)
    r = sh(f"git -C /repo apply {patch}")
    if r.returncode != 0:
        print("patch does not apply:", r.stdout); sys.exit(2)
    results = {}
    try:
        for p in props:
            env = dict(os.environ)
            if seed: env["VERIF_SEED"] = seed
            t0 = time.time()
            r = sh(f"./check.py {p} {tier}", cwd=ROOT, env=env)
            sigs = sorted(set(re.findall(r"signature=(\S+)", r.stdout)))
            inc = re.findall(r"INCONCLUSIVE.*", r.stdout)
            results[p] = {"exit": r.returncode, "signatures": sigs, "inconclusive": inc[:1], "secs": round(time.time()-t0)}
            verdict = {0: "silent", 1: "CAUGHT", 2: "inconclusive"}.get(r.returncode, f"exit {r.returncode}")
            print(f"{p} {tier}: {verdict} ({results[p]['secs']}s) " + " ".join(sigs[:6]) + (" " + inc[0][:200] if inc else ""), flush=True)
    finally:
        sh("git -C /repo checkout -- .")
        left = sh("git -C /repo status --porcelain --untracked-files=no").stdout.strip()
        if left: print("WARNING: /repo not clean after revert:", left)
    print("RESULT " + json.dumps(results))

if __name__ == "__main__":
    main()
